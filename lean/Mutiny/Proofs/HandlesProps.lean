import Mutiny.Proofs.HandlesInv

/-!
# Consequences of the `Handles` invariant used by `Props/C05.lean`, `Props/C13.lean`, `Props/C14.lean`
-/

namespace Mutiny.Handles

/-! ## ownership -/

/-- control block `i` owns its pool slot: its counter is positive, or the thread that saw it reach 0 has not yet
    entered `dealloc_id` (`oa.drop.dealloc` pending) -/
def Owning (s : St) (i : Nat) : Prop :=
  i < s.cbs.length ∧ ((getCB s i).rc > 0 ∨ ∃ t, s.thr t = .dDealloc i)

/-- the slot a thread holds *in transit*: it is inside `dealloc_id` (destructor pending or running: `dDestroy`/`uDestroy`;
    destructor done, free-list push pending: `dRelease`/`uRelease`) -/
def inTransitOf (s : St) : Loc → Option Nat
  | .dDestroy i => some (getCB s i).id
  | .dRelease i => some (getCB s i).id
  | .uDestroy x => some x
  | .uRelease x => some x
  | _ => none

/-- data-level ownership = `Owning`, or the destructor of the control block's payload is about to run -/
theorem owns_iff {s : St} (h : Inv s) (i : Nat) : Owns s i ↔ (Owning s i ∨ ∃ t, s.thr t = .dDestroy i) := by
  constructor
  · intro ho
    by_cases hz : (getCB s i).rc = 0
    · obtain ⟨t, ht⟩ := h.ownRc i ho hz
      cases hl : s.thr t <;> simp [hl, ownTail] at ht
      · subst ht; exact Or.inl ⟨ho.1, Or.inr ⟨t, hl⟩⟩
      · subst ht; exact Or.inr ⟨t, hl⟩
    · exact Or.inl ⟨ho.1, Or.inl (Nat.pos_of_ne_zero hz)⟩
  · rintro (⟨_, hr | ⟨t, ht⟩⟩ | ⟨t, ht⟩)
    · exact h.rcOwns i hr
    · exact h.ddOwns t i (by simp [ht, ownTail])
    · exact h.ddOwns t i (by simp [ht, ownTail])

theorem owns_of_owning {s : St} (h : Inv s) {i : Nat} (ho : Owning s i) : Owns s i :=
  (owns_iff h i).2 (Or.inl ho)

theorem owning_not_freed {s : St} (h : Inv s) {i : Nat} (ho : Owning s i) : (getCB s i).freed = false :=
  (h.ownOk i (owns_of_owning h ho)).1

/-- a control block whose destructor is pending/running is no longer `Owning` -/
theorem not_owning_of_destroying {s : St} (h : Inv s) {t i : Nat} (ht : s.thr t = .dDestroy i) : ¬ Owning s i := by
  rintro ⟨_, hr | ⟨u, hu⟩⟩
  · have := (h.tailOk t i (by simp [ht, tailOf])).2.2; omega
  · have := h.tailUniq t u i (by simp [ht, tailOf]) (by simp [hu, tailOf])
    subst this; rw [ht] at hu; cases hu

/-- facts about a slot in transit: in range, not allocatable, not owned by anybody else; alive and not yet logged
    while the destructor is pending, dead and logged (exactly once, see `logNodup`) afterwards -/
theorem inTransit_ok {s : St} (h : Inv s) {t x : Nat} (ht : inTransitOf s (s.thr t) = some x) :
    x < s.N ∧ x ∉ s.free ∧ x ∉ s.uniques ∧ (∀ i, Owning s i → (getCB s i).id ≠ x) := by
  cases hl : s.thr t <;> simp only [hl, inTransitOf, Option.some.injEq, reduceCtorEq] at ht
  case dDestroy i =>
    subst ht
    have ho := h.ddOwns t i (by simp [hl, ownTail])
    have := h.ownOk i ho
    refine ⟨this.2.1, this.2.2.1, this.2.2.2.1, fun j hj e => ?_⟩
    have := h.ownInj j i (owns_of_owning h hj) ho e
    subst this
    exact not_owning_of_destroying h hl hj
  case dRelease i =>
    subst ht
    have hr := h.relOk t i hl
    refine ⟨hr.1, hr.2.1, hr.2.2.1, fun j hj e => ?_⟩
    have ha := (owns_of_owning h hj).2.1
    rw [e, hr.2.2.2] at ha; cases ha
  case uDestroy y =>
    subst ht
    have := h.uOk t y (by simp [hl, uOf])
    exact ⟨this.1, this.2.1, this.2.2, fun j hj => h.uOwn t y j (by simp [hl, uOf]) (owns_of_owning h hj)⟩
  case uRelease y =>
    subst ht
    have := h.uOk t y (by simp [hl, uOf])
    exact ⟨this.1, this.2.1, this.2.2, fun j hj => h.uOwn t y j (by simp [hl, uOf]) (owns_of_owning h hj)⟩

/-- distinct threads hold distinct slots in transit -/
theorem inTransit_inj {s : St} (h : Inv s) {t u x : Nat} (ht : inTransitOf s (s.thr t) = some x)
    (hu : inTransitOf s (s.thr u) = some x) : t = u := by
  have f1 := h.ddOwns t; have f2 := h.ddOwns u; have f3 := h.ownInj; have f4 := h.tailUniq t u
  have f5 := h.relOk t; have f6 := h.relOk u; have f7 := h.uOwn t; have f8 := h.uOwn u
  have f9 := h.relRel t u; have f10 := h.relRel u t; have f11 := h.relU t u; have f12 := h.relU u t
  have f13 := h.uU t u x
  cases h1 : s.thr t <;> simp only [h1, inTransitOf, Option.some.injEq, reduceCtorEq] at ht <;>
    cases h2 : s.thr u <;> simp only [h2, inTransitOf, Option.some.injEq, reduceCtorEq] at hu <;>
    grind [Owns, ownTail, tailOf, uOf]

/-- alive / logged status of a slot in transit -/
theorem inTransit_status {s : St} (h : Inv s) (t : Nat) :
    (∀ i, s.thr t = .dDestroy i → s.alive (getCB s i).id = true ∧ s.slotGen (getCB s i).id = (getCB s i).gen ∧
        (getCB s i).gen ∉ s.dropLog.map (·.2.1)) ∧
    (∀ i, s.thr t = .dRelease i → s.alive (getCB s i).id = false ∧
        ((getCB s i).id, (getCB s i).gen, (getCB s i).val) ∈ s.dropLog ∧
        (s.dropLog.map (·.2.1)).count (getCB s i).gen = 1) ∧
    (∀ x, s.thr t = .uDestroy x → s.alive x = true ∧ s.slotGen x ∉ s.dropLog.map (·.2.1)) ∧
    (∀ x, s.thr t = .uRelease x → s.alive x = false ∧ (x, s.slotGen x, s.slot x) ∈ s.dropLog ∧
        (s.dropLog.map (·.2.1)).count (s.slotGen x) = 1) := by
  refine ⟨fun i hl => ?_, fun i hl => ?_, fun x hl => ?_, fun x hl => ?_⟩
  · have ho := h.ddOwns t i (by simp [hl, ownTail])
    have := h.aliveNotLogged _ ho.2.1
    exact ⟨ho.2.1, ho.2.2, ho.2.2 ▸ this⟩
  · have hr := h.relOk t i hl
    have hlen := (h.tailOk t i (by simp [hl, tailOf])).1
    have hm := h.deadLogged i hlen (fun ho => by have := ho.2.1; rw [hr.2.2.2] at this; cases this)
    refine ⟨hr.2.2.2, hm, ?_⟩
    rw [h.logNodup.count, if_pos]; exact List.mem_map.2 ⟨_, hm, rfl⟩
  · have := h.uDesOk t x hl
    exact ⟨this, h.aliveNotLogged x this⟩
  · have := h.uRelOk t x hl
    refine ⟨this.1, this.2, ?_⟩
    rw [h.logNodup.count, if_pos]; exact List.mem_map.2 ⟨_, this.2, rfl⟩

/-- a held handle (alive, lent to a call, or announced) keeps the counter positive, hence the slot owned -/
theorem held_owning {s : St} (h : Inv s) {i : Nat}
    (hh : (getCB s i).live + (getCB s i).lent + (getCB s i).owed > 0) : Owning s i := by
  have := h.rcSum i
  have hr : (getCB s i).rc > 0 := by omega
  exact ⟨(h.rcOwns i hr).1, Or.inl hr⟩

/-- the user's recommended statement: every finite set of distinct threads parked at control block `i` is no larger
    than `lent` (hence `rc ≥` number of concurrent droppers) -/
theorem parked_le_lent {s : St} (h : Inv s) (i : Nat) (ts : List Nat) (hn : ts.Nodup)
    (hp : ∀ t ∈ ts, pointOf (s.thr t) = some i) : ts.length ≤ (getCB s i).lent := by
  obtain ⟨ps, _, hm, hl⟩ := h.lentCount i
  rw [← hl]
  exact hn.length_le_of_subset (fun t ht => (hm t).2 (hp t ht))

theorem parked_le_rc {s : St} (h : Inv s) (i : Nat) (ts : List Nat) (hn : ts.Nodup)
    (hp : ∀ t ∈ ts, pointOf (s.thr t) = some i) : ts.length ≤ (getCB s i).rc := by
  have := parked_le_lent h i ts hn hp
  have := h.rcSum i
  omega

/-- nobody parked at `i` means nothing is lent -/
theorem lent_zero_of_no_thread {s : St} (h : Inv s) (i : Nat) (hp : ∀ t, pointOf (s.thr t) ≠ some i) :
    (getCB s i).lent = 0 := by
  obtain ⟨ps, _, hm, hl⟩ := h.lentCount i
  rw [← hl]
  cases ps with
  | nil => rfl
  | cons p ps => exact absurd ((hm p).1 (List.mem_cons_self ..)) (hp p)

/-! ## counting the pool -/

theorem range_subset_of_nodup_full {l : List Nat} {n : Nat} (hn : l.Nodup) (hlt : ∀ x ∈ l, x < n)
    (hlen : l.length = n) : ∀ x, x < n → x ∈ l := by
  intro x hx
  apply Classical.byContradiction
  intro hnot
  have h1 : (x :: l).Nodup := List.nodup_cons.2 ⟨hnot, hn⟩
  have h2 : (x :: l) ⊆ List.range n := by
    intro y hy
    rcases List.mem_cons.1 hy with rfl | hy
    · exact List.mem_range.2 hx
    · exact List.mem_range.2 (hlt y hy)
  have := h1.length_le_of_subset h2
  simp only [List.length_cons, List.length_range] at this
  omega

/-- split data-level owners into `Owning` control blocks and the threads whose destructor run is pending -/
theorem split_destroying {s : St} (h : Inv s) : ∀ L : List Nat, L.Nodup → (∀ i ∈ L, Owns s i) →
    ∃ L2 D : List Nat, L2.Nodup ∧ D.Nodup ∧ (∀ i, i ∈ L2 ↔ i ∈ L ∧ Owning s i) ∧
      (∀ t, t ∈ D ↔ ∃ i, i ∈ L ∧ s.thr t = .dDestroy i) ∧ L2.length + D.length = L.length := by
  intro L
  induction L with
  | nil => intro _ _; exact ⟨[], [], List.nodup_nil, List.nodup_nil, by simp, by simp, rfl⟩
  | cons a L ih =>
    intro hn ho
    obtain ⟨hna, hnL⟩ := List.nodup_cons.1 hn
    obtain ⟨L2, D, h1, h2, h3, h4, h5⟩ := ih hnL (fun i hi => ho i (List.mem_cons_of_mem _ hi))
    by_cases hoa : Owning s a
    · refine ⟨a :: L2, D, List.nodup_cons.2 ⟨fun hx => hna ((h3 a).1 hx).1, h1⟩, h2, fun i => ?_, fun t => ?_, by
        simp only [List.length_cons]; omega⟩
      · simp only [List.mem_cons, h3 i]
        constructor
        · rintro (rfl | ⟨hi, hoi⟩)
          · exact ⟨Or.inl rfl, hoa⟩
          · exact ⟨Or.inr hi, hoi⟩
        · rintro ⟨rfl | hi, hoi⟩
          · exact Or.inl rfl
          · exact Or.inr ⟨hi, hoi⟩
      · rw [h4 t]
        constructor
        · rintro ⟨i, hi, ht⟩; exact ⟨i, List.mem_cons_of_mem _ hi, ht⟩
        · rintro ⟨i, hi, ht⟩
          rcases List.mem_cons.1 hi with rfl | hi
          · exact absurd hoa (not_owning_of_destroying h ht)
          · exact ⟨i, hi, ht⟩
    · obtain ⟨u, hu⟩ : ∃ u, s.thr u = .dDestroy a := by
        rcases (owns_iff h a).1 (ho a (List.mem_cons_self ..)) with h' | h'
        · exact absurd h' hoa
        · exact h'
      have hnu : u ∉ D := by
        intro hx
        obtain ⟨i, hi, hti⟩ := (h4 u).1 hx
        rw [hu] at hti; cases hti; exact hna hi
      refine ⟨L2, u :: D, h1, List.nodup_cons.2 ⟨hnu, h2⟩, fun i => ?_, fun t => ?_, by
        simp only [List.length_cons]; omega⟩
      · rw [h3 i]
        constructor
        · rintro ⟨hi, hoi⟩; exact ⟨List.mem_cons_of_mem _ hi, hoi⟩
        · rintro ⟨hi, hoi⟩
          rcases List.mem_cons.1 hi with rfl | hi
          · exact absurd hoi hoa
          · exact ⟨hi, hoi⟩
      · simp only [List.mem_cons, h4 t]
        constructor
        · rintro (rfl | ⟨i, hi, ht⟩)
          · exact ⟨a, Or.inl rfl, hu⟩
          · exact ⟨i, Or.inr hi, ht⟩
        · rintro ⟨i, rfl | hi, ht⟩
          · exact Or.inl (h.tailUniq t u i (by simp [ht, tailOf]) (by simp [hu, tailOf]))
          · exact Or.inr ⟨i, hi, ht⟩

/-- slot held in transit by thread `t` (0 when none) -/
def slotOf (s : St) (t : Nat) : Nat := (inTransitOf s (s.thr t)).getD 0

theorem inTransit_isSome_iff (s : St) (l : Loc) :
    (inTransitOf s l).isSome = true ↔ ((∃ i, l = .dDestroy i) ∨ transLoc l = true) := by
  cases l <;> simp [inTransitOf, transLoc]

/-- the ids owned by control blocks, the ids owned by unique handles, the ids in transit (inside `dealloc_id`) and
    the free ids partition `0 .. N-1` -/
theorem pool_partition {s : St} (h : Inv s) :
    ∃ own tr : List Nat, own.Nodup ∧ tr.Nodup ∧ (∀ i, i ∈ own ↔ Owning s i) ∧
      (∀ t, t ∈ tr ↔ (inTransitOf s (s.thr t)).isSome = true) ∧
      own.length + s.uniques.length + tr.length + s.free.length = s.N ∧
      (own.map (fun i => (getCB s i).id) ++ s.uniques ++ tr.map (slotOf s) ++ s.free).Nodup ∧
      (∀ x ∈ own.map (fun i => (getCB s i).id) ++ s.uniques ++ tr.map (slotOf s) ++ s.free, x < s.N) ∧
      (own.map (fun i => (getCB s i).id) ++ s.uniques ++ tr.map (slotOf s) ++ s.free).Perm (List.range s.N) := by
  obtain ⟨a, b, ⟨own0, hn0, hm0, hl0⟩, ⟨tr0, hnt0, hmt0, hlt0⟩, hc⟩ := h.count
  obtain ⟨own, D, h1, h2, h3, h4, h5⟩ := split_destroying h own0 hn0 (fun i hi => (hm0 i).1 hi)
  have hown : ∀ i, i ∈ own ↔ Owning s i := fun i =>
    ⟨fun hi => ((h3 i).1 hi).2, fun ho => (h3 i).2 ⟨(hm0 i).2 (owns_of_owning h ho), ho⟩⟩
  have hD : ∀ t, t ∈ D ↔ ∃ i, s.thr t = .dDestroy i := fun t =>
    ⟨fun ht => by obtain ⟨i, _, hi⟩ := (h4 t).1 ht; exact ⟨i, hi⟩,
     fun ⟨i, hi⟩ => (h4 t).2 ⟨i, (hm0 i).2 (h.ddOwns t i (by simp [hi, ownTail])), hi⟩⟩
  have htr : ∀ t, t ∈ D ++ tr0 ↔ (inTransitOf s (s.thr t)).isSome = true := by
    intro t
    rw [List.mem_append, hD t, hmt0 t, inTransit_isSome_iff]
  have hntr : (D ++ tr0).Nodup := by
    rw [List.nodup_append]
    refine ⟨h2, hnt0, fun x hx y hy e => ?_⟩
    subst e
    obtain ⟨i, hi⟩ := (hD x).1 hx
    have := (hmt0 x).1 hy
    simp [hi, transLoc] at this
  have hslot : ∀ t, t ∈ D ++ tr0 → inTransitOf s (s.thr t) = some (slotOf s t) := by
    intro t ht
    have := (htr t).1 ht
    unfold slotOf
    cases hx : inTransitOf s (s.thr t) with
    | none => rw [hx] at this; cases this
    | some x => rfl
  have hmapo : (own.map (fun i => (getCB s i).id)).Nodup := by
    unfold List.Nodup
    rw [List.pairwise_map]
    refine List.Pairwise.imp_of_mem ?_ h1
    intro x y hx hy hxy e
    exact hxy (h.ownInj x y (owns_of_owning h ((hown x).1 hx)) (owns_of_owning h ((hown y).1 hy)) e)
  have hmapt : ((D ++ tr0).map (slotOf s)).Nodup := by
    unfold List.Nodup
    rw [List.pairwise_map]
    refine List.Pairwise.imp_of_mem ?_ hntr
    intro x y hx hy hxy e
    exact hxy (inTransit_inj h (hslot x hx) (e ▸ hslot y hy))
  have hnd : (own.map (fun i => (getCB s i).id) ++ s.uniques ++ (D ++ tr0).map (slotOf s) ++ s.free).Nodup := by
    rw [List.nodup_append, List.nodup_append, List.nodup_append]
    refine ⟨⟨⟨hmapo, h.uniqNodup, ?_⟩, hmapt, ?_⟩, h.freeNodup, ?_⟩
    · intro x hx y hy e
      obtain ⟨i, hi, rfl⟩ := List.mem_map.1 hx
      exact (h.ownOk i (owns_of_owning h ((hown i).1 hi))).2.2.2.1 (e ▸ hy)
    · intro x hx y hy e
      obtain ⟨t, ht, rfl⟩ := List.mem_map.1 hy
      have hok := inTransit_ok h (hslot t ht)
      rcases List.mem_append.1 hx with hx | hx
      · obtain ⟨i, hi, rfl⟩ := List.mem_map.1 hx
        exact hok.2.2.2 i ((hown i).1 hi) e
      · exact hok.2.2.1 (e ▸ hx)
    · intro x hx y hy e
      rcases List.mem_append.1 hx with hx | hx
      · rcases List.mem_append.1 hx with hx | hx
        · obtain ⟨i, hi, rfl⟩ := List.mem_map.1 hx
          exact (h.ownOk i (owns_of_owning h ((hown i).1 hi))).2.2.1 (e ▸ hy)
        · exact (h.uniqOk x hx).2.1 (e ▸ hy)
      · obtain ⟨t, ht, rfl⟩ := List.mem_map.1 hx
        exact (inTransit_ok h (hslot t ht)).2.1 (e ▸ hy)
  have hlt : ∀ x ∈ own.map (fun i => (getCB s i).id) ++ s.uniques ++ (D ++ tr0).map (slotOf s) ++ s.free,
      x < s.N := by
    intro x hx
    rcases List.mem_append.1 hx with hx | hx
    · rcases List.mem_append.1 hx with hx | hx
      · rcases List.mem_append.1 hx with hx | hx
        · obtain ⟨i, hi, rfl⟩ := List.mem_map.1 hx
          exact (h.ownOk i (owns_of_owning h ((hown i).1 hi))).2.1
        · exact (h.uniqOk x hx).1
      · obtain ⟨t, ht, rfl⟩ := List.mem_map.1 hx
        exact (inTransit_ok h (hslot t ht)).1
    · exact h.freeLt x hx
  have hcount : own.length + s.uniques.length + (D ++ tr0).length + s.free.length = s.N := by
    simp only [List.length_append]; omega
  have hlen : (own.map (fun i => (getCB s i).id) ++ s.uniques ++ (D ++ tr0).map (slotOf s) ++ s.free).length
      = s.N := by
    simp only [List.length_append, List.length_map] at hcount ⊢; exact hcount
  refine ⟨own, D ++ tr0, h1, hntr, hown, htr, hcount, hnd, hlt, ?_⟩
  rw [List.perm_ext_iff_of_nodup hnd List.nodup_range]
  intro x
  constructor
  · intro hx; exact List.mem_range.2 (hlt x hx)
  · intro hx; exact range_subset_of_nodup_full hnd hlt hlen x (List.mem_range.1 hx)

/-! ## frame facts (hold in every state) -/

theorem slot_step (s : St) (t : Nat) : (step s t).slot = s.slot := by
  cases ht : s.thr t <;> simp only [step, ht] <;> (try split) <;> rfl

/-- `alive` changes only at a destructor step (`pa.dealloc.drop`) -/
theorem alive_step_of_ne (s : St) (t : Nat) (hd : ∀ i, s.thr t ≠ .dDestroy i) (hu : ∀ x, s.thr t ≠ .uDestroy x) :
    (step s t).alive = s.alive := by
  cases ht : s.thr t <;> simp only [step, ht] <;> (try split) <;>
    first | rfl | exact absurd ht (hd _) | exact absurd ht (hu _)

/-- `free` grows only at a release step (`pa.dealloc.free`) -/
theorem free_step_of_ne (s : St) (t : Nat) (hd : ∀ i, s.thr t ≠ .dRelease i) (hu : ∀ x, s.thr t ≠ .uRelease x) :
    (step s t).free = s.free := by
  cases ht : s.thr t <;> simp only [step, ht] <;> (try split) <;>
    first | rfl | exact absurd ht (hd _) | exact absurd ht (hu _)

theorem dropLog_step_of_ne (s : St) (t : Nat) (hd : ∀ i, s.thr t ≠ .dDestroy i) (hu : ∀ x, s.thr t ≠ .uDestroy x) :
    (step s t).dropLog = s.dropLog := by
  cases ht : s.thr t <;> simp only [step, ht] <;> (try split) <;>
    first | rfl | exact absurd ht (hd _) | exact absurd ht (hu _)

theorem N_step (s : St) (t : Nat) : (step s t).N = s.N := by
  cases ht : s.thr t <;> simp only [step, ht] <;> (try split) <;> rfl

/-- the capacity never changes -/
theorem N_apply (s : St) (a : Act) : (apply s a).N = s.N := by
  cases a with
  | newArc t v k =>
    simp only [apply]
    split
    · cases hf : s.free with
      | nil => rw [allocWrite_nil v hf]; rfl
      | cons x rest => rw [allocWrite_cons v hf]; rfl
    · rfl
  | newUnique t v =>
    simp only [apply]
    split
    · cases hf : s.free with
      | nil => rw [allocWrite_nil v hf]; rfl
      | cons x rest => rw [allocWrite_cons v hf]; rfl
    · rfl
  | step t => simp only [apply, N_step]
  | ack t => simp only [apply]; split <;> rfl
  | clone t i => simp only [apply]; split <;> rfl
  | incRefs t i k => simp only [apply]; split <;> rfl
  | rawCopy t i => simp only [apply]; split <;> rfl
  | dropArc t i => simp only [apply]; split <;> rfl
  | count t i => simp only [apply]; split <;> rfl
  | deref t i => simp only [apply]; split <;> rfl
  | dropUnique t i => simp only [apply]; split <;> rfl
  | derefUnique t i => simp only [apply]; split <;> rfl
  | intoArc t i => simp only [apply]; split <;> rfl

theorem N_reachable {n : Nat} {s : St} (hr : Reachable n s) : s.N = n := by
  obtain ⟨as, rfl⟩ := hr
  suffices ∀ s : St, (run s as).N = s.N from this (init n)
  induction as with
  | nil => intro s; rfl
  | cons a as ih => intro s; show (run (apply s a) as).N = s.N; rw [ih, N_apply]

/-- only a fresh allocation of that very id writes a slot; an id that is not free cannot be allocated -/
theorem slot_apply_of_not_free (s : St) (a : Act) (id : Nat) (h : id ∉ s.free) : (apply s a).slot id = s.slot id := by
  cases a with
  | newArc t v k =>
    simp only [apply]
    split
    · cases hf : s.free with
      | nil => rw [allocWrite_nil v hf]; rfl
      | cons x rest =>
        rw [allocWrite_cons v hf]
        have : id ≠ x := by rintro rfl; exact h (hf ▸ List.mem_cons_self ..)
        simp [this]
    · rfl
  | newUnique t v =>
    simp only [apply]
    split
    · cases hf : s.free with
      | nil => rw [allocWrite_nil v hf]; rfl
      | cons x rest =>
        rw [allocWrite_cons v hf]
        have : id ≠ x := by rintro rfl; exact h (hf ▸ List.mem_cons_self ..)
        show (allocSt s v x rest).slot id = s.slot id
        simp [this]
    · rfl
  | step t => simp only [apply, slot_step]
  | ack t => simp only [apply]; split <;> rfl
  | clone t i => simp only [apply]; split <;> rfl
  | incRefs t i k => simp only [apply]; split <;> rfl
  | rawCopy t i => simp only [apply]; split <;> rfl
  | dropArc t i => simp only [apply]; split <;> rfl
  | count t i => simp only [apply]; split <;> rfl
  | deref t i => simp only [apply]; split <;> rfl
  | dropUnique t i => simp only [apply]; split <;> rfl
  | derefUnique t i => simp only [apply]; split <;> rfl
  | intoArc t i => simp only [apply]; split <;> rfl

/-- the destructor log grows only at a destructor step (`pa.dealloc.drop`: `dDestroy` / `uDestroy`), by the entry of
    that very slot -/
theorem dropLog_apply (s : St) (a : Act) :
    (apply s a).dropLog = s.dropLog ∨
    (∃ t i, a = .step t ∧ s.thr t = .dDestroy i ∧
        (apply s a).dropLog = s.dropLog ++ [((getCB s i).id, s.slotGen (getCB s i).id, s.slot (getCB s i).id)]) ∨
    (∃ t x, a = .step t ∧ s.thr t = .uDestroy x ∧
        (apply s a).dropLog = s.dropLog ++ [(x, s.slotGen x, s.slot x)]) := by
  cases a with
  | newArc t v k =>
    left; simp only [apply]
    split
    · cases hf : s.free with
      | nil => rw [allocWrite_nil v hf]; rfl
      | cons x rest => rw [allocWrite_cons v hf]; rfl
    · rfl
  | newUnique t v =>
    left; simp only [apply]
    split
    · cases hf : s.free with
      | nil => rw [allocWrite_nil v hf]; rfl
      | cons x rest => rw [allocWrite_cons v hf]; rfl
    · rfl
  | step t =>
    by_cases hd : ∃ i, s.thr t = .dDestroy i
    · obtain ⟨i, hi⟩ := hd
      right; left; exact ⟨t, i, rfl, hi, by simp only [apply, step, hi]; rfl⟩
    · by_cases hu : ∃ x, s.thr t = .uDestroy x
      · obtain ⟨x, hx⟩ := hu
        right; right; exact ⟨t, x, rfl, hx, by simp only [apply, step, hx]; rfl⟩
      · left; exact dropLog_step_of_ne s t (fun i hi => hd ⟨i, hi⟩) (fun x hx => hu ⟨x, hx⟩)
  | dropUnique t id => left; simp only [apply]; split <;> rfl
  | ack t => left; simp only [apply]; split <;> rfl
  | clone t i => left; simp only [apply]; split <;> rfl
  | incRefs t i k => left; simp only [apply]; split <;> rfl
  | rawCopy t i => left; simp only [apply]; split <;> rfl
  | dropArc t i => left; simp only [apply]; split <;> rfl
  | count t i => left; simp only [apply]; split <;> rfl
  | deref t i => left; simp only [apply]; split <;> rfl
  | derefUnique t i => left; simp only [apply]; split <;> rfl
  | intoArc t i => left; simp only [apply]; split <;> rfl

/-! ## state extensionality through `getCB` -/

theorem cbs_ext {l1 l2 : List CB} (hlen : l1.length = l2.length) (h : ∀ j, l1.getD j dflt = l2.getD j dflt) :
    l1 = l2 := by
  apply List.ext_getElem hlen
  intro j h1 h2
  have := h j
  simpa [List.getD_eq_getElem?_getD, List.getElem?_eq_getElem h1, List.getElem?_eq_getElem h2] using this

theorem St.ext' {s1 s2 : St} (hN : s1.N = s2.N) (hfree : s1.free = s2.free) (hslot : s1.slot = s2.slot)
    (halive : s1.alive = s2.alive) (hsg : s1.slotGen = s2.slotGen) (hng : s1.nextGen = s2.nextGen)
    (hlen : s1.cbs.length = s2.cbs.length) (hcb : ∀ j, getCB s1 j = getCB s2 j) (hu : s1.uniques = s2.uniques)
    (hthr : ∀ u, s1.thr u = s2.thr u) (hlog : s1.dropLog = s2.dropLog) : s1 = s2 := by
  have hcbs : s1.cbs = s2.cbs := cbs_ext hlen hcb
  have hthr' : s1.thr = s2.thr := funext hthr
  cases s1; cases s2; simp_all

theorem run_append (s : St) (as bs : List Act) : run s (as ++ bs) = run (run s as) bs := by
  simp [run, List.foldl_append]

theorem run_cons (s : St) (a : Act) (as : List Act) : run s (a :: as) = run (apply s a) as := rfl
theorem run_nil (s : St) : run s [] = s := rfl

/-! ## complete operations as single state transformers (C14 bulk) -/

theorem step_clone_eq {s : St} {t i : Nat} (h : s.thr t = .clone i) :
    apply s (.step t) = setThr (updCB s i fun c => { c with rc := c.rc + 1, lent := c.lent - 1, live := c.live + 2 }) t
      (.done (.arc i)) := by simp only [apply, step, h]
theorem step_inc_eq {s : St} {t i k : Nat} (h : s.thr t = .inc i k) :
    apply s (.step t) = setThr (updCB s i fun c =>
      { c with rc := c.rc + k, lent := c.lent - 1, live := c.live + 1, owed := c.owed + k }) t (.done .unit) := by
  simp only [apply, step, h]
theorem ack_eq {s : St} {t : Nat} {r : Res} (h : s.thr t = .done r) : apply s (.ack t) = setThr s t .idle := by
  simp only [apply, h]

macro "hsimp'" : tactic => `(tactic| simp only [lend, thr_setThr, N_setThr, free_setThr,
    slot_setThr, alive_setThr, slotGen_setThr, nextGen_setThr, cbs_setThr, uniques_setThr, dropLog_setThr, getCB_setThr,
    thr_updCB, N_updCB, free_updCB, slot_updCB, alive_updCB, slotGen_updCB, nextGen_updCB, uniques_updCB,
    dropLog_updCB, length_updCB, getCB_updCB])

/-- a complete `clone` (call, `fetch_add`, return) adds one to the counter and one live handle -/
theorem clone_complete (s : St) (t i : Nat) (ht : s.thr t = .idle) (hu : usable s i = true) :
    run s [.clone t i, .step t, .ack t] = updCB s i fun c => { c with rc := c.rc + 1, live := c.live + 1 } := by
  have hu' := hu
  simp only [usable, Bool.and_eq_true, decide_eq_true_eq] at hu'
  obtain ⟨hlen, hlive⟩ := hu'
  simp only [run_cons, run_nil]
  have e1 : apply s (.clone t i) = setThr (lend s i) t (.clone i) := by simp [apply, ht, hu]
  rw [e1, step_clone_eq (i := i) (by simp), ack_eq (r := .arc i) (by simp)]
  apply St.ext' <;> (try hsimp')
  case hcb => intro j; grind
  case hthr => intro u; grind

/-- a complete `increment_references(k)` adds `k` to the counter and announces `k` raw copies -/
theorem incRefs_complete (s : St) (t i k : Nat) (ht : s.thr t = .idle) (hu : usable s i = true) :
    run s [.incRefs t i k, .step t, .ack t] = updCB s i fun c => { c with rc := c.rc + k, owed := c.owed + k } := by
  have hu' := hu
  simp only [usable, Bool.and_eq_true, decide_eq_true_eq] at hu'
  obtain ⟨hlen, hlive⟩ := hu'
  simp only [run_cons, run_nil]
  have e1 : apply s (.incRefs t i k) = setThr (lend s i) t (.inc i k) := by simp [apply, ht, hu]
  rw [e1, step_inc_eq (i := i) (k := k) (by simp), ack_eq (r := .unit) (by simp)]
  apply St.ext' <;> (try hsimp')
  case hcb => intro j; grind
  case hthr => intro u; grind

/-- a complete `raw_copy` turns one announced copy into a live handle -/
theorem rawCopy_complete (s : St) (t i : Nat) (ht : s.thr t = .idle) (hlen : i < s.cbs.length)
    (ho : (getCB s i).owed > 0) :
    run s [.rawCopy t i, .ack t] = updCB s i fun c => { c with owed := c.owed - 1, live := c.live + 1 } := by
  simp only [run_cons, run_nil]
  have e1 : apply s (.rawCopy t i) =
      setThr (updCB s i fun c => { c with owed := c.owed - 1, live := c.live + 1 }) t (.done (.arc i)) := by
    simp [apply, ht, hlen, ho]
  rw [e1, ack_eq (r := .arc i) (by simp)]
  apply St.ext' <;> (try hsimp')
  case hcb => intro j; trivial
  case hthr => intro u; grind


theorem updCB_updCB_eq (s : St) (i : Nat) (f g k : CB → CB) (e : g (f (getCB s i)) = k (getCB s i)) :
    updCB (updCB s i f) i g = updCB s i k := by
  apply St.ext' <;> (try hsimp') <;> (try rfl)
  case hcb => intro j; grind
  case hthr => intro u; trivial

theorem updCB_self (s : St) (i : Nat) (f : CB → CB) (e : f (getCB s i) = getCB s i) : updCB s i f = s := by
  apply St.ext' <;> (try hsimp') <;> (try rfl)
  case hcb => intro j; grind
  case hthr => intro u; trivial

theorem rawCopy_loop (t i m : Nat) : ∀ s : St, s.thr t = .idle → i < s.cbs.length → m ≤ (getCB s i).owed →
    run s (List.replicate m [Act.rawCopy t i, Act.ack t]).flatten
      = updCB s i fun c => { c with owed := c.owed - m, live := c.live + m } := by
  induction m with
  | zero => intro s _ _ _; exact (updCB_self s i _ rfl).symm
  | succ m ih =>
    intro s ht hlen ho
    rw [List.replicate_succ, List.flatten_cons, run_append, rawCopy_complete s t i ht hlen (by omega)]
    rw [ih _ (by simpa using ht) (by simpa using hlen) (by rw [getCB_updCB]; simp [hlen]; omega)]
    apply updCB_updCB_eq
    dsimp only; grind

theorem clone_loop (t i m : Nat) : ∀ s : St, s.thr t = .idle → usable s i = true →
    run s (List.replicate m [Act.clone t i, Act.step t, Act.ack t]).flatten
      = updCB s i fun c => { c with rc := c.rc + m, live := c.live + m } := by
  induction m with
  | zero => intro s _ _; exact (updCB_self s i _ rfl).symm
  | succ m ih =>
    intro s ht hu
    have hu' := hu
    simp only [usable, Bool.and_eq_true, decide_eq_true_eq] at hu'
    rw [List.replicate_succ, List.flatten_cons, run_append, clone_complete s t i ht hu]
    rw [ih _ (by simpa using ht) (by simp [usable, getCB_updCB, hu'.1])]
    apply updCB_updCB_eq
    dsimp only; grind

/-- `increment_references(k)` followed by `k` `raw_copy` = `k` `clone`s: same final state -/
theorem bulk_eq_clones (s : St) (t i k : Nat) (ht : s.thr t = .idle) (hu : usable s i = true) :
    run s ([.incRefs t i k, .step t, .ack t] ++ (List.replicate k [Act.rawCopy t i, Act.ack t]).flatten)
      = run s (List.replicate k [Act.clone t i, Act.step t, Act.ack t]).flatten := by
  have hu' := hu
  simp only [usable, Bool.and_eq_true, decide_eq_true_eq] at hu'
  rw [run_append, incRefs_complete s t i k ht hu, clone_loop t i k s ht hu,
    rawCopy_loop t i k _ (by simpa using ht) (by simpa using hu'.1) (by rw [getCB_updCB]; simp [hu'.1])]
  apply updCB_updCB_eq
  dsimp only; grind


/-! ## FIFO reuse (C13) -/

theorem newUnique_eq {s : St} {t : Nat} (v : Nat) {x : Nat} {rest : List Nat} (ht : s.thr t = .idle)
    (hf : s.free = x :: rest) :
    apply s (.newUnique t v) = setThr (withUniques (allocSt s v x rest) (x :: s.uniques)) t (.done (.unique x)) := by
  simp only [apply, ht, if_true, allocWrite_cons v hf]; rfl

theorem newUnique_none {s : St} {t : Nat} (v : Nat) (ht : s.thr t = .idle) (hf : s.free = []) :
    apply s (.newUnique t v) = setThr s t (.done .none) := by
  simp only [apply, ht, if_true, allocWrite_nil v hf]

theorem newArc_eq {s : St} {t : Nat} (v : Nat) {k x : Nat} {rest : List Nat} (ht : s.thr t = .idle) (hk : k > 0)
    (hf : s.free = x :: rest) :
    apply s (.newArc t v k) = setThr (pushCB (allocSt s v x rest)
      { id := x, rc := k, live := k, lent := 0, owed := 0, freed := false, val := v, gen := s.nextGen }) t
      (.done (.arc s.cbs.length)) := by
  simp only [apply, ht, hk, and_self, if_true, allocWrite_cons v hf]; rfl

theorem newArc_none {s : St} {t : Nat} (v : Nat) {k : Nat} (ht : s.thr t = .idle) (hk : k > 0) (hf : s.free = []) :
    apply s (.newArc t v k) = setThr s t (.done .none) := by
  simp only [apply, ht, hk, and_self, if_true, allocWrite_nil v hf]

theorem dropUnique_eq {s : St} {t id : Nat} (ht : s.thr t = .idle) (hm : id ∈ s.uniques) :
    apply s (.dropUnique t id) = setThr (withUniques s (s.uniques.erase id)) t (.uDestroy id) := by
  simp only [apply, ht, hm, and_self, if_true]; rfl

theorem step_uDestroy_eq {s : St} {t x : Nat} (h : s.thr t = .uDestroy x) :
    apply s (.step t) = setThr (destroy s x) t (.uRelease x) := by simp only [apply, step, h]

theorem step_uRelease_eq {s : St} {t x : Nat} (h : s.thr t = .uRelease x) :
    apply s (.step t) = setThr (release s x) t (.done .unit) := by simp only [apply, step, h]

/-- a complete `dealloc` of a unique handle's slot (call, destructor, free-list push), run without interleaving, is the
    atomic `dealloc` of the coarser model: destructor logged, slot dead, id appended to the free list -/
theorem dropUnique_complete (s : St) (t id : Nat) (ht : s.thr t = .idle) (hm : id ∈ s.uniques) :
    run s [.dropUnique t id, .step t, .step t] =
      setThr (withUniques (dealloc s id) (s.uniques.erase id)) t (.done .unit) := by
  simp only [run_cons, run_nil]
  rw [dropUnique_eq ht hm,
    step_uDestroy_eq (s := setThr (withUniques s (s.uniques.erase id)) t (.uDestroy id)) (x := id) (by simp),
    step_uRelease_eq (s := setThr (destroy (setThr (withUniques s (s.uniques.erase id)) t (.uDestroy id)) id) t
      (.uRelease id)) (x := id) (by simp)]
  apply St.ext' <;> (try rfl)
  case hcb => intro j; rfl
  case hthr => intro u; simp only [thr_setThr, thr_release, thr_destroy]; split <;> rfl

/-- a thread allocating alone pops the free list front to back -/
theorem solo_allocs (t : Nat) (vs : List Nat) : ∀ (s : St) (l rest : List Nat), s.thr t = .idle →
    s.free = l ++ rest → vs.length = l.length →
    (run s (vs.flatMap fun v => [Act.newUnique t v, Act.ack t])).thr t = .idle ∧
    (run s (vs.flatMap fun v => [Act.newUnique t v, Act.ack t])).free = rest ∧
    (run s (vs.flatMap fun v => [Act.newUnique t v, Act.ack t])).uniques = l.reverse ++ s.uniques := by
  induction vs with
  | nil =>
    intro s l rest ht hf hl
    have : l = [] := List.eq_nil_of_length_eq_zero hl.symm
    subst this
    exact ⟨ht, hf, rfl⟩
  | cons v vs ih =>
    intro s l rest ht hf hl
    cases l with
    | nil => simp at hl
    | cons x l =>
      have hf' : s.free = x :: (l ++ rest) := hf
      rw [List.flatMap_cons, run_append, run_cons, run_cons, run_nil, newUnique_eq v ht hf',
        ack_eq (r := .unique x) (by simp)]
      have := ih (setThr (setThr (withUniques (allocSt s v x (l ++ rest)) (x :: s.uniques)) t (.done (.unique x))) t .idle)
        l rest (by simp) (by simp) (by simpa using hl)
      refine ⟨this.1, this.2.1, ?_⟩
      rw [this.2.2]; simp

end Mutiny.Handles
