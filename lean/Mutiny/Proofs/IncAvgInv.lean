import Mutiny.Model.IncAvg

/-!
# Inductive invariant of the `IncAvg` model (`AtomicIncrementalAverage64`: load / compute / CAS / retry)

Everything here holds for an arbitrary `avgUpd` (the floating-point formula on bit patterns is abstract).
-/

namespace Mutiny.IncAvg

/-! ## projection lemmas -/

@[simp, grind =] theorem thr_setThr (s : St) (t : Nat) (l : Loc) (u : Nat) :
    (setThr s t l).thr u = if u = t then l else s.thr u := rfl
@[simp, grind =] theorem cell_setThr (s : St) (t : Nat) (l : Loc) : (setThr s t l).cell = s.cell := rfl
@[simp, grind =] theorem commits_setThr (s : St) (t : Nat) (l : Loc) : (setThr s t l).commits = s.commits := rfl
@[simp, grind =] theorem stored_setThr (s : St) (t : Nat) (l : Loc) : (setThr s t l).stored = s.stored := rfl

/-! ## `split` / `join` -/

theorem split_join {c a : Nat} (hc : c < W32) : split (join c a) = (c, a) := by
  simp only [split, join, Prod.mk.injEq]
  constructor <;> omega

theorem join_split (j : Nat) : join (split j).1 (split j).2 = j := by
  simp only [split, join]
  omega

theorem split_fst_lt (j : Nat) : (split j).1 < W32 := Nat.mod_lt _ (by decide)

/-- induction from the end of the list (core has no `reverseRecOn`) -/
theorem snoc_induction {motive : List Nat → Prop} (nil : motive [])
    (snoc : ∀ xs x, motive xs → motive (xs ++ [x])) (xs : List Nat) : motive xs := by
  have : ∀ ys : List Nat, motive ys.reverse := by
    intro ys
    induction ys with
    | nil => exact nil
    | cons y ys ih => rw [List.reverse_cons]; exact snoc _ _ ih
  simpa using this xs.reverse

/-! ## `fold` and the list of its prefixes -/

@[simp] theorem fold_nil (avgUpd : Nat → Nat → Nat → Nat) : fold avgUpd [] = 0 := rfl

theorem fold_snoc (avgUpd : Nat → Nat → Nat → Nat) (xs : List Nat) (x : Nat) :
    fold avgUpd (xs ++ [x]) = upd avgUpd (fold avgUpd xs) x := by
  unfold fold
  rw [List.foldl_append, List.foldl_cons, List.foldl_nil]

/-- every value the cell holds along the commit order `xs`: the folds of all prefixes of `xs`, oldest first -/
def prefixFolds (avgUpd : Nat → Nat → Nat → Nat) (xs : List Nat) : List Nat :=
  (List.range (xs.length + 1)).map (fun k => fold avgUpd (xs.take k))

theorem prefixFolds_nil (avgUpd : Nat → Nat → Nat → Nat) : prefixFolds avgUpd [] = [0] := by
  simp [prefixFolds, List.range_succ]

theorem prefixFolds_snoc (avgUpd : Nat → Nat → Nat → Nat) (xs : List Nat) (x : Nat) :
    prefixFolds avgUpd (xs ++ [x]) = prefixFolds avgUpd xs ++ [fold avgUpd (xs ++ [x])] := by
  unfold prefixFolds
  rw [List.length_append, List.length_singleton, List.range_succ (n := xs.length + 1), List.map_append]
  congr 1
  · apply List.map_congr_left
    intro k hk
    have : k ≤ xs.length := by have := List.mem_range.1 hk; omega
    rw [List.take_append_of_le_length this]
  · simp only [List.map_cons, List.map_nil]
    rw [List.take_of_length_le (by simp)]

theorem mem_prefixFolds {avgUpd : Nat → Nat → Nat → Nat} {xs : List Nat} {j : Nat} :
    j ∈ prefixFolds avgUpd xs ↔ ∃ k, k ≤ xs.length ∧ j = fold avgUpd (xs.take k) := by
  simp only [prefixFolds, List.mem_map, List.mem_range]
  constructor
  · rintro ⟨k, hk, rfl⟩; exact ⟨k, by omega, rfl⟩
  · rintro ⟨k, hk, rfl⟩; exact ⟨k, by omega, rfl⟩

theorem getLast?_prefixFolds (avgUpd : Nat → Nat → Nat → Nat) (xs : List Nat) :
    (prefixFolds avgUpd xs).getLast? = some (fold avgUpd xs) := by
  simp [prefixFolds, List.range_succ]

/-! ## counter / pair content of a fold -/

/-- the `(counter, average)` recurrence of `inc`, without packing and without the counter reset -/
def pairFold (avgUpd : Nat → Nat → Nat → Nat) (xs : List Nat) : Nat × Nat :=
  xs.foldl (fun p x => (p.1 + 1, avgUpd p.1 p.2 x)) (0, 0)

theorem pairFold_snoc (avgUpd : Nat → Nat → Nat → Nat) (xs : List Nat) (x : Nat) :
    pairFold avgUpd (xs ++ [x])
      = ((pairFold avgUpd xs).1 + 1, avgUpd (pairFold avgUpd xs).1 (pairFold avgUpd xs).2 x) := by
  simp [pairFold, List.foldl_append]

theorem pairFold_fst (avgUpd : Nat → Nat → Nat → Nat) (xs : List Nat) : (pairFold avgUpd xs).1 = xs.length := by
  induction xs using snoc_induction with
  | nil => rfl
  | snoc xs x ih => rw [pairFold_snoc]; simp [ih]

/-- As long as the counter did not reach `u32::MAX + 1` commits, the cell holds exactly the unpacked recurrence. -/
theorem split_fold (avgUpd : Nat → Nat → Nat → Nat) (xs : List Nat) (h : xs.length < W32) :
    split (fold avgUpd xs) = pairFold avgUpd xs := by
  induction xs using snoc_induction with
  | nil => simp [split, pairFold]
  | snoc xs x ih =>
    have hl : xs.length + 1 < W32 := by simpa using h
    have ih := ih (by omega)
    have h1 := pairFold_fst avgUpd xs
    rw [fold_snoc, pairFold_snoc, upd, ih]
    have hne : ¬ (pairFold avgUpd xs).1 = W32 - 1 := by omega
    simp only [hne, if_false]
    exact split_join (by omega)

theorem fold_counter (avgUpd : Nat → Nat → Nat → Nat) (xs : List Nat) (h : xs.length < W32) :
    (split (fold avgUpd xs)).1 = xs.length := by
  rw [split_fold avgUpd xs h, pairFold_fst]

/-- With a 32-bit `avgUpd`, every cell content fits the `AtomicU64` (no truncation in `join_split`), for ever
(also across the counter reset). -/
theorem fold_lt_u64 (avgUpd : Nat → Nat → Nat → Nat) (havg : ∀ c a x, avgUpd c a x < W32) (xs : List Nat) :
    fold avgUpd xs < W32 * W32 := by
  induction xs using snoc_induction with
  | nil => simp
  | snoc xs x _ =>
    rw [fold_snoc, upd]
    have h1 := split_fst_lt (fold avgUpd xs)
    simp only [join]
    split
    · have := havg 100 (split (fold avgUpd xs)).2 x; omega
    · have := havg (split (fold avgUpd xs)).1 (split (fold avgUpd xs)).2 x; omega

/-! ## the invariant -/

structure Inv (avgUpd : Nat → Nat → Nat → Nat) (s : St) : Prop where
  cellFold : s.cell = fold avgUpd s.commits
  storedEq : s.stored = prefixFolds avgUpd s.commits
  casMem   : ∀ t x cur, s.thr t = .iCas x cur → cur ∈ s.stored

theorem Inv.last {avgUpd : Nat → Nat → Nat → Nat} {s : St} (h : Inv avgUpd s) :
    s.stored.getLast? = some s.cell := by
  rw [h.storedEq, h.cellFold, getLast?_prefixFolds]

theorem Inv.cell_mem {avgUpd : Nat → Nat → Nat → Nat} {s : St} (h : Inv avgUpd s) : s.cell ∈ s.stored :=
  List.mem_of_getLast? h.last

theorem inv_init (avgUpd : Nat → Nat → Nat → Nat) : Inv avgUpd init := by
  constructor
  · rfl
  · simp [init, prefixFolds_nil]
  · intro t x cur h; simp [init] at h

/-- Moving a thread to a point that is not `iCas` (nothing else changes). -/
theorem inv_setThr_free {avgUpd : Nat → Nat → Nat → Nat} (s : St) (t : Nat) (l : Loc) (h : Inv avgUpd s)
    (hl : ∀ x cur, l = .iCas x cur → cur ∈ s.stored) : Inv avgUpd (setThr s t l) := by
  obtain ⟨h1, h2, h3⟩ := h
  constructor <;> simp only [thr_setThr, cell_setThr, commits_setThr, stored_setThr]
  all_goals (first | assumption | skip)
  intro u x cur hu
  by_cases hut : u = t
  · subst hut; simp only [if_true] at hu; exact hl x cur hu
  · simp only [hut, if_false] at hu; exact h3 u x cur hu

theorem inv_step {avgUpd : Nat → Nat → Nat → Nat} (s : St) (t : Nat) (h : Inv avgUpd s) :
    Inv avgUpd (step avgUpd s t) := by
  cases ht : s.thr t with
  | idle => simp only [step, ht]; exact h
  | done r => simp only [step, ht]; exact h
  | iLoad x =>
    simp only [step, ht]
    exact inv_setThr_free s t _ h (by intro x cur e; cases e; exact h.cell_mem)
  | pProbe =>
    simp only [step, ht]
    exact inv_setThr_free s t _ h (by intro x cur e; cases e)
  | iCas x cur =>
    simp only [step, ht]
    split
    · rename_i hc
      obtain ⟨h1, h2, h3⟩ := h
      constructor <;> simp only [thr_setThr, cell_setThr, commits_setThr, stored_setThr]
      · rw [fold_snoc, ← h1, hc]
      · rw [prefixFolds_snoc, fold_snoc, ← h1, ← h2, hc]
      · intro u y c hu
        by_cases hut : u = t
        · subst hut; simp at hu
        · simp only [hut, if_false] at hu
          exact List.mem_append_left _ (h3 u y c hu)
    · exact inv_setThr_free s t _ h (by intro x cur e; cases e; exact h.cell_mem)

theorem inv_apply {avgUpd : Nat → Nat → Nat → Nat} (s : St) (a : Act) (h : Inv avgUpd s) :
    Inv avgUpd (apply avgUpd s a) := by
  cases a with
  | inc t x =>
    simp only [apply]; split
    · exact inv_setThr_free s t _ h (by intro x cur e; cases e)
    · exact h
  | probe t =>
    simp only [apply]; split
    · exact inv_setThr_free s t _ h (by intro x cur e; cases e)
    · exact h
  | step t => exact inv_step s t h
  | ack t =>
    simp only [apply]; split
    · exact inv_setThr_free s t _ h (by intro x cur e; cases e)
    · exact h

theorem inv_run {avgUpd : Nat → Nat → Nat → Nat} (s : St) (as : List Act) (h : Inv avgUpd s) :
    Inv avgUpd (run avgUpd s as) := by
  induction as generalizing s with
  | nil => exact h
  | cons a as ih => exact ih (apply avgUpd s a) (inv_apply s a h)

theorem reachable_inv {avgUpd : Nat → Nat → Nat → Nat} {s : St} (h : Reachable avgUpd s) : Inv avgUpd s := by
  obtain ⟨as, rfl⟩ := h
  exact inv_run _ as (inv_init avgUpd)

theorem reachable_apply {avgUpd : Nat → Nat → Nat → Nat} {s : St} (h : Reachable avgUpd s) (a : Act) :
    Reachable avgUpd (apply avgUpd s a) := by
  obtain ⟨as, rfl⟩ := h
  exact ⟨as ++ [a], by simp [run, List.foldl_append]⟩

/-! ## step-level facts -/

theorem step_cas_success (avgUpd : Nat → Nat → Nat → Nat) (s : St) (t x cur : Nat)
    (ht : s.thr t = .iCas x cur) (hc : s.cell = cur) :
    step avgUpd s t
      = setThr { s with cell := upd avgUpd cur x, commits := s.commits ++ [x],
                        stored := s.stored ++ [upd avgUpd cur x] } t (.done .unit) := by
  simp only [step, ht, hc, if_true]

theorem step_cas_failure (avgUpd : Nat → Nat → Nat → Nat) (s : St) (t x cur : Nat)
    (ht : s.thr t = .iCas x cur) (hc : s.cell ≠ cur) :
    step avgUpd s t = setThr s t (.iCas x s.cell) := by
  simp only [step, ht, hc, if_false]

/-- A step that is not a successful CAS leaves `cell`, `commits` and `stored` alone. -/
theorem step_frame (avgUpd : Nat → Nat → Nat → Nat) (s : St) (t : Nat)
    (h : ∀ x, s.thr t ≠ .iCas x s.cell) :
    (step avgUpd s t).cell = s.cell ∧ (step avgUpd s t).commits = s.commits
    ∧ (step avgUpd s t).stored = s.stored := by
  cases ht : s.thr t with
  | idle => simp [step, ht]
  | done r => simp [step, ht]
  | iLoad x => simp [step, ht]
  | pProbe => simp [step, ht]
  | iCas x cur =>
    have : s.cell ≠ cur := by intro e; exact h x (by rw [ht, e])
    rw [step_cas_failure avgUpd s t x cur ht this]; simp

theorem apply_frame (avgUpd : Nat → Nat → Nat → Nat) (s : St) (a : Act)
    (h : ∀ t x, a = .step t → s.thr t ≠ .iCas x s.cell) :
    (apply avgUpd s a).cell = s.cell ∧ (apply avgUpd s a).commits = s.commits
    ∧ (apply avgUpd s a).stored = s.stored := by
  cases a with
  | inc t x => simp only [apply]; split <;> simp
  | probe t => simp only [apply]; split <;> simp
  | step t => exact step_frame avgUpd s t (fun x => h t x rfl)
  | ack t => simp only [apply]; split <;> simp

end Mutiny.IncAvg
