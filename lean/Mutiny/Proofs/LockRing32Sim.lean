import Mutiny.Proofs.LockRingInv
import Mutiny.Proofs.U32
import Mutiny.Model.LockRing32

/-!
# `LockRing32` (u32 arithmetic of `FullSyncMove`) is the image modulo 2^32 of `LockRing` (M2) — property C15

No window hypothesis about threads is needed here: under the lock there are no over-claims, `head ≤ tail ≤ head + N` is all the
arithmetic uses.  Hypotheses: `N ∣ 2^32` (power of two) and `N < 2^31` (the consumer's emptiness test is signed).
-/
namespace Mutiny.LockRing32
open Mutiny.LockRing Mutiny.U32

theorem St.ext' {a b : St} (hN : a.N = b.N) (hh : a.head = b.head) (ht : a.tail = b.tail) (hl : a.locked = b.locked)
    (hb : ∀ i, a.buf i = b.buf i) (hthr : ∀ u, a.thr u = b.thr u)
    (hacc : a.accepted = b.accepted) (hdel : a.delivered = b.delivered) : a = b := by
  cases a; cases b
  simp only at hN hh ht hl hacc hdel
  have hb' := funext hb
  have ht' := funext hthr
  simp only at hb' ht'
  subst hN hh ht hl hacc hdel hb' ht'
  rfl

@[simp] theorem img_N (s : St) : (img s).N = s.N := rfl
@[simp] theorem img_head (s : St) : (img s).head = wrap s.head := rfl
@[simp] theorem img_tail (s : St) : (img s).tail = wrap s.tail := rfl
@[simp] theorem img_locked (s : St) : (img s).locked = s.locked := rfl
@[simp] theorem img_buf (s : St) : (img s).buf = s.buf := rfl
@[simp] theorem img_thr (s : St) (u : Nat) : (img s).thr u = imgLoc (s.thr u) := rfl
@[simp] theorem img_acc (s : St) : (img s).accepted = s.accepted := rfl
@[simp] theorem img_del (s : St) : (img s).delivered = s.delivered.map fun x => (x.1, wrap x.2.1, x.2.2) := rfl

macro "close_thr" t:term:max : tactic => `(tactic| (intro u; by_cases hu : u = $t <;> simp [hu, imgLoc, setThr, setBuf]))
macro "close_st" t:term:max : tactic => `(tactic| (first | rfl | (congr 1; apply St.ext' <;> simp [setThr, setBuf, wadd_wrap_one] <;> (try close_thr $t))))

theorem sim_step (s : St) (t : Nat) (h : Inv s) (hN : M32 % s.N = 0) (hNs : s.N ≤ 2147483647) :
    step32 (img s) t = some (img (step s t)) := by
  have := h.ht; have := h.cap
  have e2 : wsub (wrap s.tail) (wrap s.head) = s.tail - s.head := wsub_wrap s.tail s.head (by omega) (by omega)
  cases hl : s.thr t with
  | idle => simp only [step32, step, img_thr, hl, imgLoc]
  | done r => simp only [step32, step, img_thr, hl, imgLoc]
  | pLock v => cases hk : s.locked <;> simp only [step32, step, img_thr, hl, imgLoc, img_locked, hk, ↓reduceIte, Bool.false_eq_true] <;> close_st t
  | pSpin v => cases hk : s.locked <;> simp only [step32, step, img_thr, hl, imgLoc, img_locked, hk, ↓reduceIte, Bool.false_eq_true] <;> try close_st t
  | pCheck v =>
    simp only [step32, step, img_thr, hl, imgLoc, fsAdmit32, len32, img_head, img_tail, img_N, e2]
    by_cases hc : s.tail - s.head < s.N
    · have : cadd (s.tail - s.head) 1 = some (s.tail - s.head + 1) := by unfold cadd; rw [if_pos (by omega)]
      simp only [hc, decide_true, ↓reduceIte, this]
      try close_st t
    · simp only [hc, decide_false, Bool.false_eq_true, ↓reduceIte]
      try close_st t
  | pFullUnlocked => simp only [step32, step, img_thr, hl, imgLoc]; try close_st t
  | pWrite v len =>
    simp only [step32, step, img_thr, hl, imgLoc, index32, img_tail, img_N, mod_wrap s.tail s.N hN]
    try close_st t
  | pPublish v len => simp only [step32, step, img_thr, hl, imgLoc, img_tail, img_acc]; try close_st t
  | pUnlocked len => simp only [step32, step, img_thr, hl, imgLoc]; try close_st t
  | cLock => cases hk : s.locked <;> simp only [step32, step, img_thr, hl, imgLoc, img_locked, hk, ↓reduceIte, Bool.false_eq_true] <;> try close_st t
  | cSpin => cases hk : s.locked <;> simp only [step32, step, img_thr, hl, imgLoc, img_locked, hk, ↓reduceIte, Bool.false_eq_true] <;> try close_st t
  | cLenT => simp only [step32, step, img_thr, hl, imgLoc]; try close_st t
  | cLen =>
    simp only [step32, step, img_thr, hl, imgLoc, len32, img_head, img_tail, e2]
    by_cases hc : s.tail - s.head > 0
    · have : posI32 (s.tail - s.head) = true := by rw [posI32_iff]; omega
      simp only [hc, this, ↓reduceIte]
      try close_st t
    · have : posI32 (s.tail - s.head) = false := by
        cases hp : posI32 (s.tail - s.head) with
        | false => rfl
        | true => rw [posI32_iff] at hp; omega
      simp only [hc, this, ↓reduceIte, Bool.false_eq_true]
      try close_st t
  | cEmptyUnlocked => simp only [step32, step, img_thr, hl, imgLoc]; try close_st t
  | cRead =>
    simp only [step32, step, img_thr, hl, imgLoc, index32, img_head, img_N, img_buf, mod_wrap s.head s.N hN]
    try close_st t
  | cRelease v => simp only [step32, step, img_thr, hl, imgLoc, img_head, img_del]; try close_st t
  | cUnlocked v => simp only [step32, step, img_thr, hl, imgLoc]; try close_st t
  | lLen => simp only [step32, step, img_thr, hl, imgLoc, img_tail]; try close_st t
  | lLenH tl => simp only [step32, step, img_thr, hl, imgLoc, len32, img_head]; try close_st t

theorem img_apply_nonstep (s : St) (a : Act) (ha : ∀ t, a ≠ .step t) : LockRing.apply (img s) a = img (LockRing.apply s a) := by
  cases a with
  | step t => exact absurd rfl (ha t)
  | send t v =>
    have e : imgLoc (s.thr t) = .idle ↔ s.thr t = .idle := by cases s.thr t <;> simp [imgLoc]
    simp only [LockRing.apply, img_thr]
    by_cases hi : s.thr t = .idle
    · have e0 : imgLoc Loc.idle = Loc.idle := rfl
      simp only [hi, e0, ↓reduceIte]; apply St.ext' <;> simp [setThr, img] <;> (try close_thr t)
    · have : ¬ imgLoc (s.thr t) = .idle := fun x => hi (e.mp x)
      simp only [hi, this, ↓reduceIte]
  | recv t =>
    have e : imgLoc (s.thr t) = .idle ↔ s.thr t = .idle := by cases s.thr t <;> simp [imgLoc]
    simp only [LockRing.apply, img_thr]
    by_cases hi : s.thr t = .idle
    · have e0 : imgLoc Loc.idle = Loc.idle := rfl
      simp only [hi, e0, ↓reduceIte]; apply St.ext' <;> simp [setThr, img] <;> (try close_thr t)
    · have : ¬ imgLoc (s.thr t) = .idle := fun x => hi (e.mp x)
      simp only [hi, this, ↓reduceIte]
  | len t =>
    have e : imgLoc (s.thr t) = .idle ↔ s.thr t = .idle := by cases s.thr t <;> simp [imgLoc]
    simp only [LockRing.apply, img_thr]
    by_cases hi : s.thr t = .idle
    · have e0 : imgLoc Loc.idle = Loc.idle := rfl
      simp only [hi, e0, ↓reduceIte]; apply St.ext' <;> simp [setThr, img] <;> (try close_thr t)
    · have : ¬ imgLoc (s.thr t) = .idle := fun x => hi (e.mp x)
      simp only [hi, this, ↓reduceIte]
  | ack t => simp only [LockRing.apply, img_thr]; cases hi : s.thr t <;> simp [imgLoc] <;> (apply St.ext' <;> simp [setThr]; try close_thr t)

theorem sim_apply (s : St) (a : Act) (h : Inv s) (hN : M32 % s.N = 0) (hNs : s.N ≤ 2147483647) :
    apply32 (img s) a = some (img (LockRing.apply s a)) := by
  cases a with
  | step t => exact sim_step s t h hN hNs
  | send t v => simp only [apply32]; rw [img_apply_nonstep s _ (by intro u e; cases e)]
  | recv t => simp only [apply32]; rw [img_apply_nonstep s _ (by intro u e; cases e)]
  | len t => simp only [apply32]; rw [img_apply_nonstep s _ (by intro u e; cases e)]
  | ack t => simp only [apply32]; rw [img_apply_nonstep s _ (by intro u e; cases e)]

theorem apply_N (s : St) (a : Act) : (LockRing.apply s a).N = s.N := by
  cases a with
  | step t => simp only [LockRing.apply, step]; split <;> (try split) <;> simp [setThr, setBuf]
  | _ => simp only [LockRing.apply]; split <;> simp [setThr]

/-- **C15 for the full-sync ring, machine level**: every run of the `u32` machine is, action for action, the image modulo
    2^32 of the run of model M2 over free-running naturals — for runs of any length (counters of any magnitude), any number of
    threads and any schedule — and never panics -/
theorem sim_run (s : St) (as : List Act) (h : Inv s) (hN : M32 % s.N = 0) (hNs : s.N ≤ 2147483647) :
    run32 (img s) as = some (img (LockRing.run s as)) := by
  induction as generalizing s with
  | nil => rfl
  | cons a as ih =>
    simp only [run32, sim_apply s a h hN hNs]
    exact ih (LockRing.apply s a) (inv_apply s a h) (by rw [apply_N]; exact hN) (by rw [apply_N]; exact hNs)

end Mutiny.LockRing32
