import Mutiny.Proofs.IncAvgInv

/-!
# `IncAvg`: every accepted `inc` call commits exactly once (trace level)

`acceptedVals avgUpd s as` = the measurements of the `inc` calls that were accepted (thread idle) along the run `as`
from `s`.  Invariant: accepted measurements = committed measurements + measurements of the calls still in flight
(as multisets), where the calls in flight are listed, one per thread, by a duplicate-free list `L` of
`(thread, measurement)` that is *exactly* the set of threads at `iLoad x` / `iCas x _`.
-/

namespace Mutiny.IncAvg

/-- thread location `l` is inside an `inc` call carrying measurement `x` -/
def flying (l : Loc) (x : Nat) : Prop := l = .iLoad x ∨ ∃ cur, l = .iCas x cur

/-- what the action `a` adds to the accepted measurements -/
def newAccepted (s : St) : Act → List Nat
  | .inc t x => if s.thr t = .idle then [x] else []
  | _ => []

/-- measurements of the accepted `inc` calls along the run `as` from `s` -/
def acceptedVals (avgUpd : Nat → Nat → Nat → Nat) (s : St) : List Act → List Nat
  | [] => []
  | a :: as => newAccepted s a ++ acceptedVals avgUpd (apply avgUpd s a) as

/-- accounting invariant -/
def Acct (s : St) (acc : List Nat) : Prop :=
  ∃ L : List (Nat × Nat), (L.map (·.1)).Nodup ∧ (∀ t x, (t, x) ∈ L ↔ flying (s.thr t) x)
    ∧ acc.Perm (s.commits ++ L.map (·.2))

theorem acct_init : Acct init [] :=
  ⟨[], by simp, by intro t x; simp [init, flying], by simp [init]⟩

/-- A thread that is not in flight moves to a point that is not in flight; `commits` unchanged. -/
theorem acct_setThr_free (s : St) (t : Nat) (l : Loc) (acc : List Nat) (h : Acct s acc)
    (h1 : ∀ x, ¬ flying (s.thr t) x) (h2 : ∀ x, ¬ flying l x) : Acct (setThr s t l) acc := by
  obtain ⟨L, nd, mem, perm⟩ := h
  refine ⟨L, nd, ?_, perm⟩
  intro u x
  rw [mem u x]
  by_cases hut : u = t
  · subst hut; simp [h1 x, h2 x]
  · simp [hut]

/-- A thread in flight stays in flight with the same measurement; `commits` unchanged. -/
theorem acct_setThr_same (s : St) (t x : Nat) (l : Loc) (acc : List Nat) (h : Acct s acc)
    (h1 : flying (s.thr t) x) (h2 : flying l x) : Acct (setThr s t l) acc := by
  obtain ⟨L, nd, mem, perm⟩ := h
  refine ⟨L, nd, ?_, perm⟩
  intro u y
  rw [mem u y]
  by_cases hut : u = t
  · subst hut
    simp only [thr_setThr, if_true]
    have uniq : ∀ l' y, flying l' x → (flying l' y ↔ y = x) := by
      intro l' y hl
      constructor
      · intro hy
        rcases hl with rfl | ⟨c, rfl⟩ <;> rcases hy with e | ⟨c', e⟩ <;> cases e <;> rfl
      · rintro rfl; exact hl
    rw [uniq _ y h1, uniq _ y h2]
  · simp [hut]

theorem acct_step {avgUpd : Nat → Nat → Nat → Nat} (s : St) (t : Nat) (acc : List Nat) (h : Acct s acc) :
    Acct (step avgUpd s t) acc := by
  cases ht : s.thr t with
  | idle => simp only [step, ht]; exact h
  | done r => simp only [step, ht]; exact h
  | iLoad x =>
    simp only [step, ht]
    exact acct_setThr_same s t x _ acc h (by simp [ht, flying]) (by simp [flying])
  | pProbe =>
    simp only [step, ht]
    exact acct_setThr_free s t _ acc h (by simp [ht, flying]) (by simp [flying])
  | iCas x cur =>
    by_cases hc : s.cell = cur
    · rw [step_cas_success avgUpd s t x cur ht hc]
      obtain ⟨L, nd, mem, perm⟩ := h
      have hin : (t, x) ∈ L := (mem t x).2 (by simp [ht, flying])
      have ndL : L.Nodup := List.Pairwise.of_map (·.1) (fun a b hab e => hab (by rw [e])) nd
      refine ⟨L.erase (t, x), ?_, ?_, ?_⟩
      · exact List.Nodup.sublist (List.Sublist.map _ List.erase_sublist) nd
      · intro u y
        rw [ndL.mem_erase_iff, mem u y]
        by_cases hut : u = t
        · subst hut
          simp only [thr_setThr, if_true, ht]
          constructor
          · rintro ⟨hne, hy⟩
            rcases hy with e | ⟨c, e⟩
            · cases e
            · cases e; exact absurd rfl hne
          · intro hy; simp [flying] at hy
        · simp only [thr_setThr, hut, if_false]
          constructor
          · exact fun hh => hh.2
          · intro hy; exact ⟨by intro e; cases e; exact hut rfl, hy⟩
      · simp only [commits_setThr]
        have p1 : (L.map (·.2)).Perm (x :: (L.erase (t, x)).map (·.2)) := (List.perm_cons_erase hin).map (·.2)
        refine perm.trans ?_
        rw [List.append_assoc]
        exact List.Perm.append_left _ (by simpa using p1)
    · rw [step_cas_failure avgUpd s t x cur ht hc]
      exact acct_setThr_same s t x _ acc h (by simp [ht, flying]) (by simp [flying])

theorem acct_apply {avgUpd : Nat → Nat → Nat → Nat} (s : St) (a : Act) (acc : List Nat) (h : Acct s acc) :
    Acct (apply avgUpd s a) (acc ++ newAccepted s a) := by
  cases a with
  | inc t x =>
    simp only [apply, newAccepted]
    split
    · rename_i hidle
      obtain ⟨L, nd, mem, perm⟩ := h
      refine ⟨(t, x) :: L, ?_, ?_, ?_⟩
      · simp only [List.map_cons, List.nodup_cons, List.mem_map, not_exists, not_and]
        refine ⟨?_, nd⟩
        rintro ⟨u, y⟩ hp e
        simp only at e; subst e
        have := (mem u y).1 hp
        simp [hidle, flying] at this
      · intro u y
        simp only [List.mem_cons, Prod.mk.injEq, mem u y, thr_setThr]
        by_cases hut : u = t
        · subst hut; simp [hidle, flying]
          constructor <;> intro e <;> exact e.symm
        · simp [hut]
      · simp only [commits_setThr, List.map_cons]
        exact (perm.append_right [x]).trans (by
          rw [List.append_assoc]
          exact List.Perm.append_left _ (by simp))
    · simpa using h
  | probe t =>
    simp only [apply, newAccepted, List.append_nil]
    split
    · exact acct_setThr_free s t _ acc h (by simp [*, flying]) (by simp [flying])
    · exact h
  | step t =>
    simp only [newAccepted, List.append_nil]
    exact acct_step s t acc h
  | ack t =>
    simp only [apply, newAccepted, List.append_nil]
    split
    · exact acct_setThr_free s t _ acc h (by simp [*, flying]) (by simp [flying])
    · exact h

theorem acct_run {avgUpd : Nat → Nat → Nat → Nat} (s : St) (as : List Act) (acc : List Nat) (h : Acct s acc) :
    Acct (run avgUpd s as) (acc ++ acceptedVals avgUpd s as) := by
  induction as generalizing s acc with
  | nil => simpa [run, acceptedVals] using h
  | cons a as ih =>
    have := ih (apply avgUpd s a) (acc ++ newAccepted s a) (acct_apply s a acc h)
    simpa [run, acceptedVals, List.append_assoc] using this

end Mutiny.IncAvg
