import Mutiny.Proofs.MultiSeq

/-!
# `Multi` model (M6 + M7): fan-out to a fixed listener set under arbitrary interleaving

Executions that start in a quiescent well-formed state `s₀` (`WF`) and contain no `create` / `drop` action (`FanAct`):
any number of producer and consumer threads, any interleaving of the micro-steps of `send`, `poll`, `release`.

* `Frame` — the bookkeeping fields never change;
* `Core` — per event: which listeners (a prefix of the ascending live ids) have been served so far;
* `FanInv` — `Frame` + `Core` + per-listener queue order + reference-counter accounting (ogre_arc);
* `fan_run` — `FanInv` along every such execution.
-/

namespace Mutiny.Multi

/-! ## list vocabulary -/

/-- the listeners `ev` was published to, in publication order -/
def pubsOf (P : List (Nat × Nat)) (ev : Nat) : List Nat := (P.filter (fun x => x.1 == ev)).map (fun x => x.2)

/-- the events published to listener `l`, in publication order -/
def pubsTo (P : List (Nat × Nat)) (l : Nat) : List Nat := (P.filter (fun x => x.2 == l)).map (fun x => x.1)

/-- the events delivered to listener `l` (any incarnation), in delivery order -/
def dlvOf (D : List (Nat × Nat × Nat)) (l : Nat) : List Nat := (D.filter (fun x => x.1 == l)).map (fun x => x.2.2)

/-- number of deliveries of `ev` (to anybody) -/
def dcount (D : List (Nat × Nat × Nat)) (ev : Nat) : Nat := D.countP (fun x => x.2.2 == ev)

@[simp] theorem pubsOf_nil (ev : Nat) : pubsOf [] ev = [] := rfl
@[simp] theorem pubsTo_nil (l : Nat) : pubsTo [] l = [] := rfl
@[simp] theorem dlvOf_nil (l : Nat) : dlvOf [] l = [] := rfl
@[simp] theorem dcount_nil (ev : Nat) : dcount [] ev = 0 := rfl

theorem pubsOf_append (P Q : List (Nat × Nat)) (ev : Nat) : pubsOf (P ++ Q) ev = pubsOf P ev ++ pubsOf Q ev := by
  simp [pubsOf]

theorem pubsTo_append (P Q : List (Nat × Nat)) (l : Nat) : pubsTo (P ++ Q) l = pubsTo P l ++ pubsTo Q l := by
  simp [pubsTo]

theorem dlvOf_append (D D' : List (Nat × Nat × Nat)) (l : Nat) : dlvOf (D ++ D') l = dlvOf D l ++ dlvOf D' l := by
  simp [dlvOf]

theorem dcount_append (D D' : List (Nat × Nat × Nat)) (ev : Nat) : dcount (D ++ D') ev = dcount D ev + dcount D' ev := by
  simp [dcount]

theorem pubsOf_single (e l ev : Nat) : pubsOf [(e, l)] ev = if e = ev then [l] else [] := by
  by_cases h : e = ev <;> simp [pubsOf, h]

theorem pubsTo_single (e l l' : Nat) : pubsTo [(e, l)] l' = if l = l' then [e] else [] := by
  by_cases h : l = l' <;> simp [pubsTo, h]

theorem count_pair (P : List (Nat × Nat)) (ev l : Nat) : P.count (ev, l) = (pubsOf P ev).count l := by
  induction P with
  | nil => rfl
  | cons x P ih =>
    obtain ⟨e, m⟩ := x
    rw [show (e, m) :: P = [(e, m)] ++ P from rfl, pubsOf_append, List.count_append, List.count_append, ih,
      pubsOf_single]
    by_cases h1 : e = ev <;> by_cases h2 : m = l <;> simp [h1, h2]

theorem count_pair' (P : List (Nat × Nat)) (ev l : Nat) : P.count (ev, l) = (pubsTo P l).count ev := by
  induction P with
  | nil => rfl
  | cons x P ih =>
    obtain ⟨e, m⟩ := x
    rw [show (e, m) :: P = [(e, m)] ++ P from rfl, pubsTo_append, List.count_append, List.count_append, ih,
      pubsTo_single]
    by_cases h1 : e = ev <;> by_cases h2 : m = l <;> simp [h1, h2]

theorem mem_pubsOf {P : List (Nat × Nat)} {ev l : Nat} : l ∈ pubsOf P ev ↔ (ev, l) ∈ P := by
  rw [← List.count_pos_iff, ← List.count_pos_iff, count_pair]

/-- multiset inclusion gives a length bound -/
theorem length_le_of_count_le : ∀ (l₁ l₂ : List Nat), (∀ a, l₁.count a ≤ l₂.count a) → l₁.length ≤ l₂.length
  | [], _, _ => Nat.zero_le _
  | a :: l, l₂, h => by
    have ha : a ∈ l₂ := List.count_pos_iff.1 (by have := h a; simp at this; omega)
    have := length_le_of_count_le l (l₂.erase a) (fun b => by
      have := h b
      rw [List.count_erase]
      rw [List.count_cons] at this
      by_cases hb : b = a
      · subst hb; simp at this ⊢; omega
      · have : (a == b) = false := by simp [Ne.symm hb]
        simp_all)
    rw [List.length_erase_of_mem ha] at this
    have := List.length_pos_of_mem ha
    simp; omega

/-! ## the per-event progress invariant, abstractly

`ids` = the ascending live ids; `pr t = some (ev, i)` = thread `t` is inside a send of `ev` and has served `ids.take i`;
`P` = publications so far, `S` = completed sends, `E` = events passed to `send` so far. -/

structure Core (ids E : List Nat) (pr : Nat → Option (Nat × Nat)) (P : List (Nat × Nat)) (S : List Nat) : Prop where
  act : ∀ t ev i, pr t = some (ev, i) →
          ev ∈ E ∧ ev ∉ S ∧ i ≤ ids.length ∧ pubsOf P ev = ids.take i ∧ ∀ u j, pr u = some (ev, j) → u = t
  fin : ∀ ev, ev ∈ S → ev ∈ E ∧ pubsOf P ev = ids
  oth : ∀ ev, ev ∉ S → (∀ t i, pr t ≠ some (ev, i)) → pubsOf P ev = []

theorem Core.init (ids : List Nat) : Core ids [] (fun _ => none) [] [] := by
  constructor <;> simp

theorem Core.congr {ids E pr pr' P S} (h : Core ids E pr P S) (hp : ∀ t, pr' t = pr t) : Core ids E pr' P S := by
  have : pr' = pr := funext hp
  rw [this]; exact h

/-- a `send` that has no effect (thread busy, pool full) -/
theorem Core.mono {ids E pr P S} (h : Core ids E pr P S) (ev : Nat) : Core ids (E ++ [ev]) pr P S := by
  obtain ⟨a, f, o⟩ := h
  refine ⟨fun t e i ht => ?_, fun e he => ?_, o⟩
  · obtain ⟨h1, h2⟩ := a t e i ht
    exact ⟨by simp [h1], h2⟩
  · obtain ⟨h1, h2⟩ := f e he
    exact ⟨by simp [h1], h2⟩

theorem Core.fresh {ids E pr P S} (h : Core ids E pr P S) {ev : Nat} (he : ev ∉ E) :
    ev ∉ S ∧ (∀ t i, pr t ≠ some (ev, i)) ∧ pubsOf P ev = [] := by
  have h1 : ev ∉ S := fun hs => he (h.fin ev hs).1
  have h2 : ∀ t i, pr t ≠ some (ev, i) := fun t i ht => he (h.act t ev i ht).1
  exact ⟨h1, h2, h.oth ev h1 h2⟩

/-- a thread starts sending a fresh event -/
theorem Core.start {ids E pr P S} (h : Core ids E pr P S) {t ev : Nat} (he : ev ∉ E) (ht : pr t = none) :
    Core ids (E ++ [ev]) (fun u => if u = t then some (ev, 0) else pr u) P S := by
  obtain ⟨f1, f2, f3⟩ := h.fresh he
  have h' := h.mono ev
  obtain ⟨a, f, o⟩ := h'
  refine ⟨fun u e i hu => ?_, f, fun e hs hn => ?_⟩
  · by_cases hut : u = t
    · subst hut
      simp at hu
      obtain ⟨rfl, rfl⟩ := hu
      refine ⟨by simp, f1, Nat.zero_le _, by simp [f3], fun w j hw => ?_⟩
      by_cases hwt : w = u
      · exact hwt
      · simp [hwt] at hw; exact absurd hw (f2 w j)
    · simp [hut] at hu
      obtain ⟨h1, h2, h3, h4, h5⟩ := a u e i hu
      refine ⟨h1, h2, h3, h4, fun w j hw => ?_⟩
      by_cases hwt : w = t
      · subst hwt
        simp at hw
        exact absurd hu (hw.1 ▸ f2 u i)
      · simp [hwt] at hw; exact h5 w j hw
  · apply o e hs
    intro u i hu
    by_cases hut : u = t
    · rw [hut, ht] at hu; cases hu
    · exact hn u i (by simp [hut, hu])

/-- the sending thread serves the next listener -/
theorem Core.advance {ids E pr P S} (h : Core ids E pr P S) {t ev i : Nat} (ht : pr t = some (ev, i))
    (hi : i < ids.length) :
    Core ids E (fun u => if u = t then some (ev, i + 1) else pr u) (P ++ [(ev, ids[i])]) S := by
  obtain ⟨a, f, o⟩ := h
  obtain ⟨t1, t2, t3, t4, t5⟩ := a t ev i ht
  refine ⟨fun u e j hu => ?_, fun e he => ?_, fun e hs hn => ?_⟩
  · by_cases hut : u = t
    · subst hut
      simp at hu
      obtain ⟨rfl, rfl⟩ := hu
      refine ⟨t1, t2, hi, ?_, fun w j hw => ?_⟩
      · rw [pubsOf_append, t4, pubsOf_single, if_pos rfl, List.take_append_getElem hi]
      · by_cases hwt : w = u
        · exact hwt
        · simp [hwt] at hw; exact t5 w j hw
    · simp [hut] at hu
      obtain ⟨h1, h2, h3, h4, h5⟩ := a u e j hu
      have hne : ev ≠ e := by rintro rfl; exact hut (t5 u j hu)
      refine ⟨h1, h2, h3, ?_, fun w k hw => ?_⟩
      · rw [pubsOf_append, h4, pubsOf_single, if_neg hne, List.append_nil]
      · by_cases hwt : w = t
        · subst hwt; simp at hw; exact absurd hw.1 hne
        · simp [hwt] at hw; exact h5 w k hw
  · have hne : ev ≠ e := by rintro rfl; exact t2 he
    obtain ⟨h1, h2⟩ := f e he
    exact ⟨h1, by rw [pubsOf_append, h2, pubsOf_single, if_neg hne, List.append_nil]⟩
  · have hne : ev ≠ e := by rintro rfl; exact hn t (i + 1) (by simp)
    rw [pubsOf_append, pubsOf_single, if_neg hne, List.append_nil]
    apply o e hs
    intro u j hu
    by_cases hut : u = t
    · subst hut; rw [ht] at hu; simp at hu; exact hne hu.1
    · exact hn u j (by simp [hut, hu])

/-- the sending thread has served everybody and completes -/
theorem Core.finish {ids E pr P S} (h : Core ids E pr P S) {t ev : Nat} (ht : pr t = some (ev, ids.length)) :
    Core ids E (fun u => if u = t then none else pr u) P (S ++ [ev]) := by
  obtain ⟨a, f, o⟩ := h
  obtain ⟨t1, t2, t3, t4, t5⟩ := a t ev _ ht
  refine ⟨fun u e j hu => ?_, fun e he => ?_, fun e hs hn => ?_⟩
  · by_cases hut : u = t
    · subst hut; simp at hu
    · simp [hut] at hu
      obtain ⟨h1, h2, h3, h4, h5⟩ := a u e j hu
      have hne : ev ≠ e := by rintro rfl; exact hut (t5 u j hu)
      refine ⟨h1, by simp [h2, Ne.symm hne], h3, h4, fun w k hw => ?_⟩
      by_cases hwt : w = t
      · subst hwt; simp at hw
      · simp [hwt] at hw; exact h5 w k hw
  · rcases List.mem_append.1 he with he | he
    · exact f e he
    · simp at he; subst he
      exact ⟨t1, by rw [t4, List.take_length]⟩
  · have hs' : e ∉ S := fun hh => hs (by simp [hh])
    have hne : e ≠ ev := fun hh => hs (by simp [hh])
    apply o e hs'
    intro u j hu
    by_cases hut : u = t
    · subst hut; rw [ht] at hu; simp at hu; exact hne hu.1.symm
    · exact hn u j (by simp [hut, hu])

/-- a fresh event is sent to nobody and completes at once (`arc` with `MAX = 0`) -/
theorem Core.startFinish {E pr P S} (h : Core [] E pr P S) {ev : Nat} (he : ev ∉ E) :
    Core [] (E ++ [ev]) pr P (S ++ [ev]) := by
  obtain ⟨f1, f2, f3⟩ := h.fresh he
  obtain ⟨a, f, o⟩ := h.mono ev
  refine ⟨fun u e j hu => ?_, fun e he' => ?_, fun e hs hn => ?_⟩
  · obtain ⟨h1, h2, h3⟩ := a u e j hu
    have hne : e ≠ ev := by rintro rfl; exact f2 u j hu
    exact ⟨h1, by simp [h2, hne], h3⟩
  · rcases List.mem_append.1 he' with he' | he'
    · exact f e he'
    · simp at he'; subst he'
      exact ⟨by simp, f3⟩
  · exact o e (fun hh => hs (by simp [hh])) hn

theorem Core.pubsOf_cases {ids E pr P S} (h : Core ids E pr P S) (ev : Nat) :
    ∃ i, i ≤ ids.length ∧ pubsOf P ev = ids.take i := by
  by_cases hs : ev ∈ S
  · exact ⟨ids.length, Nat.le_refl _, by rw [(h.fin ev hs).2, List.take_length]⟩
  · by_cases ha : ∃ t i, pr t = some (ev, i)
    · obtain ⟨t, i, ht⟩ := ha
      obtain ⟨_, _, h3, h4, _⟩ := h.act t ev i ht
      exact ⟨i, h3, h4⟩
    · exact ⟨0, Nat.zero_le _, by
        rw [h.oth ev hs (fun t i ht => ha ⟨t, i, ht⟩)]; rfl⟩

theorem Core.pubsOf_length_le {ids E pr P S} (h : Core ids E pr P S) (ev : Nat) :
    (pubsOf P ev).length ≤ ids.length := by
  obtain ⟨i, hi, he⟩ := h.pubsOf_cases ev
  rw [he, List.length_take]; omega

theorem Core.mem_E {ids E pr P S} (h : Core ids E pr P S) {x : Nat × Nat} (hx : x ∈ P) : x.1 ∈ E := by
  have hm : x.2 ∈ pubsOf P x.1 := mem_pubsOf.2 hx
  by_cases hs : x.1 ∈ S
  · exact (h.fin _ hs).1
  · by_cases ha : ∃ t i, pr t = some (x.1, i)
    · obtain ⟨t, i, ht⟩ := ha
      exact (h.act t _ i ht).1
    · rw [h.oth _ hs (fun t i ht => ha ⟨t, i, ht⟩)] at hm
      cases hm

/-! ## the concrete invariant -/

/-- the actions of a fan-out execution: no `create`, no `drop` -/
def FanAct : Act → Prop
  | .create _ | .drop _ _ => False
  | _ => True

instance : DecidablePred FanAct := fun a => by cases a <;> simp only [FanAct] <;> infer_instance

/-- the event passed to `send` -/
def sendOf : Act → List Nat
  | .send _ ev => [ev]
  | _ => []

/-- the event released -/
def relOf : Act → List Nat
  | .release ev => [ev]
  | _ => []

def sendEvs (as : List Act) : List Nat := as.flatMap sendOf
def relEvs (as : List Act) : List Nat := as.flatMap relOf

/-- progress of a sending thread: `(ev, number of listeners served)` -/
def prog : Loc → Option (Nat × Nat)
  | .fArc ev i _ => some (ev, i)
  | .fCount ev => some (ev, 0)
  | .fOgre ev i _ => some (ev, i)
  | _ => none

/-- the bookkeeping fields (`keep` is not among them: `.cancel` changes it, and only `.cancel`: `keep_run`) -/
def frameOf (s : St) :=
  (s.MAX, s.N, s.flavor, s.drains, s.vacant, s.used, s.count, s.slock, s.live, s.inc)

/-- what is known about a thread at location `l`: it is not inside `create`/`drop`/`sync`; a walker of the `arc`
    flavour holds the entry it read; a walker of the `ogre_arc` flavour holds the right count, and the reference counter
    of its event accounts for the producer's own handle, the `|L|` copies, and the releases so far -/
def LocOK (s₀ : St) (Ev : List Nat) (refs : Nat → Nat) (R : List Nat) : Loc → Prop
  | .idle | .done _ | .pPoll _ => True
  | .fArc _ i id => id = s₀.used.getD i s₀.MAX ∧ s₀.flavor = .arc
  | .fCount ev => ev ∈ Ev → refs ev = 1
  | .fOgre ev i cnt => cnt = (usedIds s₀.MAX s₀.vacant).length ∧ i < cnt ∧
      (ev ∈ Ev → refs ev + R.count ev = 1 + (usedIds s₀.MAX s₀.vacant).length)
  | _ => False

theorem LocOK.congr {s₀ : St} {Ev : List Nat} {refs refs' : Nat → Nat} {R R' : List Nat} {l : Loc}
    (h : LocOK s₀ Ev refs R l) (hc : ∀ ev i, prog l = some (ev, i) → refs' ev = refs ev ∧ R'.count ev = R.count ev) :
    LocOK s₀ Ev refs' R' l := by
  cases l <;> simp only [LocOK] at h ⊢ <;> try exact h
  · rename_i ev
    rw [(hc ev 0 rfl).1]; exact h
  · rename_i ev i cnt
    rw [(hc ev i rfl).1, (hc ev i rfl).2]; exact h

structure FanInv (s₀ : St) (Ev E R : List Nat) (P : List (Nat × Nat)) (S : List Nat) (D : List (Nat × Nat × Nat))
    (s : St) : Prop where
  frame  : frameOf s = frameOf s₀
  lok    : ∀ t, LocOK s₀ Ev s.refs R (s.thr t)
  pubsEq : s.pubs = s₀.pubs ++ P
  sentEq : s.sent = s₀.sent ++ S
  dlvEq  : s.delivered = s₀.delivered ++ D
  core   : Core (usedIds s₀.MAX s₀.vacant) E (fun t => prog (s.thr t)) P S
  /-- per listener: delivered ++ still queued = initially queued ++ published, in order -/
  order  : ∀ l, dlvOf D l ++ s.queues l = s₀.queues l ++ pubsTo P l
  relLe  : ∀ ev, ev ∈ Ev → R.count ev ≤ dcount D ev
  refsS  : s.flavor = .ogreArc → ∀ ev, ev ∈ S → ev ∈ Ev →
             s.refs ev + R.count ev = (usedIds s₀.MAX s₀.vacant).length

theorem fanInv_init {s₀ : St} (h : WF s₀) (Ev : List Nat) : FanInv s₀ Ev [] [] [] [] [] s₀ := by
  refine ⟨rfl, fun t => by rw [h.idle t]; trivial, by simp, by simp, by simp, ?_, by simp, by simp, by simp⟩
  have : (fun t => prog (s₀.thr t)) = fun _ => none := by funext t; rw [h.idle t]; rfl
  rw [this]; exact Core.init _

/-! ### deliveries of a new event never outnumber its publications -/

theorem count_dlvOf (D : List (Nat × Nat × Nat)) (l ev : Nat) :
    (dlvOf D l).count ev = D.countP (fun x => x.1 == l && x.2.2 == ev) := by
  induction D with
  | nil => rfl
  | cons x D ih =>
    rw [show x :: D = [x] ++ D from rfl, dlvOf_append, List.count_append, List.countP_append, ih]
    congr 1
    by_cases h1 : x.1 = l <;> by_cases h2 : x.2.2 = ev <;> simp [dlvOf, h1, h2]

theorem count_receivers (D : List (Nat × Nat × Nat)) (l ev : Nat) :
    ((D.filter (fun x => x.2.2 == ev)).map (fun x => x.1)).count l =
      D.countP (fun x => x.1 == l && x.2.2 == ev) := by
  induction D with
  | nil => rfl
  | cons x D ih =>
    rw [show x :: D = [x] ++ D from rfl, List.filter_append, List.map_append, List.count_append, List.countP_append, ih]
    congr 1
    by_cases h1 : x.1 = l <;> by_cases h2 : x.2.2 = ev <;> simp [h1, h2]

theorem dcount_eq_length (D : List (Nat × Nat × Nat)) (ev : Nat) :
    dcount D ev = ((D.filter (fun x => x.2.2 == ev)).map (fun x => x.1)).length := by
  simp [dcount, List.countP_eq_length_filter]

theorem dcount_le_pubs {q₀ q : Nat → List Nat} {D : List (Nat × Nat × Nat)} {P : List (Nat × Nat)} {ev : Nat}
    (ho : ∀ l, dlvOf D l ++ q l = q₀ l ++ pubsTo P l) (hq : ∀ l, ev ∉ q₀ l) :
    dcount D ev ≤ (pubsOf P ev).length := by
  rw [dcount_eq_length]
  apply length_le_of_count_le
  intro l
  rw [count_receivers, ← count_dlvOf, ← count_pair, count_pair']
  have := congrArg (List.count ev) (ho l)
  rw [List.count_append, List.count_append, List.count_eq_zero_of_not_mem (hq l)] at this
  omega

theorem frameOf_flavor {s s' : St} (h : frameOf s' = frameOf s) : s'.flavor = s.flavor := by
  simp only [frameOf, Prod.mk.injEq] at h; exact h.2.2.1

/-! ### transitions preserving `FanInv`

Each lemma describes the new state `s'` by what it does to the fields the invariant talks about. -/

section transitions
variable {s₀ : St} {Ev E R : List Nat} {P : List (Nat × Nat)} {S : List Nat} {D : List (Nat × Nat × Nat)} {s s' : St}

/-- other threads are not affected by a change of `refs` at the event of thread `t` -/
theorem FanInv.lok_other (h : FanInv s₀ Ev E R P S D s) {t u : Nat} {refs' : Nat → Nat} {R' : List Nat} (hut : u ≠ t)
    (hr : ∀ e, (∀ i, prog (s.thr t) ≠ some (e, i)) → refs' e = s.refs e ∧ R'.count e = R.count e) :
    LocOK s₀ Ev refs' R' (s.thr u) := by
  refine (h.lok u).congr (fun e i he => hr e (fun j hj => ?_))
  exact hut ((h.core.act t e j hj).2.2.2.2 u i he)

/-- thread `t` moves to a location with the same progress; `refs` may change at its event only -/
theorem FanInv.relabel (h : FanInv s₀ Ev E R P S D s) {t : Nat} {l' : Loc}
    (hf : frameOf s' = frameOf s) (ht : s'.thr = fun u => if u = t then l' else s.thr u)
    (hp : s'.pubs = s.pubs) (hs : s'.sent = s.sent) (hd : s'.delivered = s.delivered) (hq : s'.queues = s.queues)
    (hpr : prog l' = prog (s.thr t))
    (hr : ∀ e, (∀ i, prog (s.thr t) ≠ some (e, i)) → s'.refs e = s.refs e)
    (hl : LocOK s₀ Ev s'.refs R l') : FanInv s₀ Ev E R P S D s' := by
  refine ⟨hf.trans h.frame, fun u => ?_, hp ▸ h.pubsEq, hs ▸ h.sentEq, hd ▸ h.dlvEq, ?_, hq ▸ h.order,
    h.relLe, fun hfl e he hE => ?_⟩
  · rw [ht]
    by_cases hut : u = t
    · simpa [hut] using hl
    · simp only [hut, if_false]
      exact h.lok_other hut (fun e he => ⟨hr e he, rfl⟩)
  · refine h.core.congr (fun u => ?_)
    rw [ht]
    by_cases hut : u = t
    · simp [hut, hpr]
    · simp [hut]
  · rw [hr e (fun i hi => (h.core.act t e i hi).2.1 he)]
    exact h.refsS (frameOf_flavor hf ▸ hfl) e he hE

/-- a `send` without effect -/
theorem FanInv.mono (h : FanInv s₀ Ev E R P S D s) (ev : Nat) :
    FanInv s₀ Ev (E ++ [ev]) R P S D s :=
  { h with core := h.core.mono ev }

/-- thread `t` starts sending the fresh event `ev` -/
theorem FanInv.start (h : FanInv s₀ Ev E R P S D s) {t ev : Nat} {l' : Loc} (hfr : ev ∉ E)
    (hf : frameOf s' = frameOf s) (ht : s'.thr = fun u => if u = t then l' else s.thr u)
    (hp : s'.pubs = s.pubs) (hs : s'.sent = s.sent) (hd : s'.delivered = s.delivered) (hq : s'.queues = s.queues)
    (hpt : prog (s.thr t) = none) (hpr : prog l' = some (ev, 0))
    (hr : ∀ e, e ≠ ev → s'.refs e = s.refs e)
    (hl : LocOK s₀ Ev s'.refs R l') : FanInv s₀ Ev (E ++ [ev]) R P S D s' := by
  obtain ⟨f1, f2, f3⟩ := h.core.fresh hfr
  refine ⟨hf.trans h.frame, fun u => ?_, hp ▸ h.pubsEq, hs ▸ h.sentEq, hd ▸ h.dlvEq, ?_,
    hq ▸ h.order, h.relLe, fun hfl e he hE => ?_⟩
  · rw [ht]
    by_cases hut : u = t
    · simpa [hut] using hl
    · simp only [hut, if_false]
      refine (h.lok u).congr (fun e i he => ⟨hr e ?_, rfl⟩)
      rintro rfl; exact f2 u i he
  · have := h.core.start (t := t) hfr hpt
    refine this.congr (fun u => ?_)
    rw [ht]
    by_cases hut : u = t
    · simp [hut, hpr]
    · simp [hut]
  · rw [hr e (by rintro rfl; exact f1 he)]
    exact h.refsS (frameOf_flavor hf ▸ hfl) e he hE

/-- thread `t` publishes `ev` to the next listener -/
theorem FanInv.advance (h : FanInv s₀ Ev E R P S D s) {t ev i : Nat} {l' : Loc}
    (hi : i < (usedIds s₀.MAX s₀.vacant).length)
    (hf : frameOf s' = frameOf s) (ht : s'.thr = fun u => if u = t then l' else s.thr u)
    (hp : s'.pubs = s.pubs ++ [(ev, (usedIds s₀.MAX s₀.vacant)[i])]) (hs : s'.sent = s.sent)
    (hd : s'.delivered = s.delivered)
    (hq : s'.queues = fun j => if j = (usedIds s₀.MAX s₀.vacant)[i] then s.queues j ++ [ev] else s.queues j)
    (hpt : prog (s.thr t) = some (ev, i)) (hpr : prog l' = some (ev, i + 1))
    (hr : s'.refs = s.refs)
    (hl : LocOK s₀ Ev s'.refs R l') :
    FanInv s₀ Ev E R (P ++ [(ev, (usedIds s₀.MAX s₀.vacant)[i])]) S D s' := by
  refine ⟨hf.trans h.frame, fun u => ?_, by rw [hp, h.pubsEq, List.append_assoc], hs ▸ h.sentEq, hd ▸ h.dlvEq,
    ?_, fun l => ?_, h.relLe, fun hfl e he hE => ?_⟩
  · rw [ht]
    by_cases hut : u = t
    · simpa [hut] using hl
    · simp only [hut, if_false]
      rw [hr]; exact h.lok u
  · have := h.core.advance (t := t) hpt hi
    refine this.congr (fun u => ?_)
    rw [ht]
    by_cases hut : u = t
    · simp [hut, hpr]
    · simp [hut]
  · rw [hq, pubsTo_append, pubsTo_single, ← List.append_assoc, ← h.order l]
    by_cases hl' : l = (usedIds s₀.MAX s₀.vacant)[i]
    · simp [hl']
    · simp [hl', Ne.symm hl']
  · rw [hr]; exact h.refsS (frameOf_flavor hf ▸ hfl) e he hE

/-- thread `t`, having served every listener, completes its send -/
theorem FanInv.finish (h : FanInv s₀ Ev E R P S D s) {t ev : Nat} {r : Res}
    (hf : frameOf s' = frameOf s) (ht : s'.thr = fun u => if u = t then .done r else s.thr u)
    (hp : s'.pubs = s.pubs) (hs : s'.sent = s.sent ++ [ev]) (hd : s'.delivered = s.delivered)
    (hq : s'.queues = s.queues)
    (hpt : prog (s.thr t) = some (ev, (usedIds s₀.MAX s₀.vacant).length))
    (hr : ∀ e, e ≠ ev → s'.refs e = s.refs e)
    (hrs : s.flavor = .ogreArc → ev ∈ Ev → s'.refs ev + R.count ev = (usedIds s₀.MAX s₀.vacant).length) :
    FanInv s₀ Ev E R P (S ++ [ev]) D s' := by
  refine ⟨hf.trans h.frame, fun u => ?_, hp ▸ h.pubsEq, by rw [hs, h.sentEq, List.append_assoc], hd ▸ h.dlvEq,
    ?_, hq ▸ h.order, h.relLe, fun hfl e he hE => ?_⟩
  · rw [ht]
    by_cases hut : u = t
    · simp [hut, LocOK]
    · simp only [hut, if_false]
      refine h.lok_other hut (fun e he => ⟨hr e ?_, rfl⟩)
      rintro rfl; exact he _ hpt
  · have := h.core.finish (t := t) hpt
    refine this.congr (fun u => ?_)
    rw [ht]
    by_cases hut : u = t
    · simp [hut, prog]
    · simp [hut]
  · have hfl' : s.flavor = .ogreArc := frameOf_flavor hf ▸ hfl
    rcases List.mem_append.1 he with he | he
    · rw [hr e (fun hh => (h.core.act t _ _ hpt).2.1 (hh ▸ he))]
      exact h.refsS hfl' e he hE
    · simp at he; subst he; exact hrs hfl' hE

/-- the `arc` flavour with `MAX = 0`: the send of a fresh event completes at once -/
theorem FanInv.startFinish (h : FanInv s₀ Ev E R P S D s) {t ev : Nat} {r : Res} (hfr : ev ∉ E)
    (hids : usedIds s₀.MAX s₀.vacant = [])
    (hf : frameOf s' = frameOf s) (ht : s'.thr = fun u => if u = t then .done r else s.thr u)
    (hp : s'.pubs = s.pubs) (hs : s'.sent = s.sent ++ [ev]) (hd : s'.delivered = s.delivered)
    (hq : s'.queues = s.queues) (hpt : prog (s.thr t) = none) (hr : s'.refs = s.refs)
    (hfl : s.flavor = .arc) :
    FanInv s₀ Ev (E ++ [ev]) R P (S ++ [ev]) D s' := by
  refine ⟨hf.trans h.frame, fun u => ?_, hp ▸ h.pubsEq, by rw [hs, h.sentEq, List.append_assoc], hd ▸ h.dlvEq,
    ?_, hq ▸ h.order, h.relLe, fun hfl' => ?_⟩
  · rw [ht]
    by_cases hut : u = t
    · simp [hut, LocOK]
    · simp only [hut, if_false]
      rw [hr]; exact h.lok u
  · have hc := h.core
    rw [hids] at hc ⊢
    refine (hc.startFinish hfr).congr (fun u => ?_)
    rw [ht]
    by_cases hut : u = t
    · subst hut; simp only [if_true]; rw [hpt]; rfl
    · simp [hut]
  · rw [frameOf_flavor hf, hfl] at hfl'; cases hfl'

/-- a consumer takes the head of its queue -/
theorem FanInv.deliver (h : FanInv s₀ Ev E R P S D s) {id k ev : Nat} {rest : List Nat}
    (hf : frameOf s' = frameOf s) (ht : s'.thr = s.thr) (hp : s'.pubs = s.pubs) (hs : s'.sent = s.sent)
    (hd : s'.delivered = s.delivered ++ [(id, k, ev)]) (hq : s.queues id = ev :: rest)
    (hq' : s'.queues = fun j => if j = id then rest else s.queues j) (hr : s'.refs = s.refs) :
    FanInv s₀ Ev E R P S (D ++ [(id, k, ev)]) s' := by
  refine ⟨hf.trans h.frame, fun u => by rw [ht, hr]; exact h.lok u, hp ▸ h.pubsEq, hs ▸ h.sentEq,
    by rw [hd, h.dlvEq, List.append_assoc], by rw [ht]; exact h.core, fun l => ?_, fun e he => ?_,
    fun hfl e he hE => by rw [hr]; exact h.refsS (frameOf_flavor hf ▸ hfl) e he hE⟩
  · rw [hq', dlvOf_append, ← h.order l]
    by_cases hl : l = id
    · subst hl; simp [dlvOf, hq]
    · simp [dlvOf, hl, Ne.symm hl]
  · have := h.relLe e he
    rw [dcount_append]; omega

/-- a consumer releases a payload handle it received: not before the delivery (`hrel`) -/
theorem FanInv.release (h : FanInv s₀ Ev E R P S D s) {ev : Nat}
    (hq0 : ∀ e, e ∈ Ev → ∀ l, e ∉ s₀.queues l)
    (hrel : ev ∈ Ev → R.count ev < dcount D ev)
    (hf : frameOf s' = frameOf s) (ht : s'.thr = s.thr) (hp : s'.pubs = s.pubs) (hs : s'.sent = s.sent)
    (hd : s'.delivered = s.delivered) (hq : s'.queues = s.queues)
    (hr : s'.refs = fun e => if e = ev then s.refs e - 1 else s.refs e) :
    FanInv s₀ Ev E (R ++ [ev]) P S D s' := by
  have hb : ev ∈ Ev → R.count ev < (pubsOf P ev).length := fun he =>
    Nat.lt_of_lt_of_le (hrel he) (dcount_le_pubs h.order (hq0 ev he))
  refine ⟨hf.trans h.frame, fun u => ?_, hp ▸ h.pubsEq, hs ▸ h.sentEq, hd ▸ h.dlvEq,
    by rw [ht]; exact h.core, hq ▸ h.order, fun e he => ?_, fun hfl e he hE => ?_⟩
  · rw [ht, hr]
    have hu := h.lok u
    cases hl : s.thr u <;> rw [hl] at hu <;> simp only [LocOK] at hu ⊢ <;> try exact hu
    · rename_i e
      intro hE
      have ha := h.core.act u e 0 (by simp [hl, prog])
      by_cases hee : e = ev
      · subst hee
        have := hb hE
        rw [ha.2.2.2.1] at this
        simp at this
      · simpa [hee] using hu hE
    · rename_i e i cnt
      refine ⟨hu.1, hu.2.1, fun hE => ?_⟩
      have hu3 := hu.2.2 hE
      by_cases hee : e = ev
      · subst hee
        have := hb hE
        have := h.core.pubsOf_length_le e
        simp only [if_true, List.count_append, List.count_singleton_self]
        omega
      · have : (ev == e) = false := by simp [Ne.symm hee]
        simpa [hee, List.count_append, List.count_singleton, this] using hu3
  · have := h.relLe e he
    by_cases hee : e = ev
    · subst hee
      have := hrel he
      simp [List.count_append]; omega
    · have : (ev == e) = false := by simp [Ne.symm hee]
      simpa [List.count_append, List.count_singleton, this]
  · have hfl' : s.flavor = .ogreArc := frameOf_flavor hf ▸ hfl
    have := h.refsS hfl' e he hE
    rw [hr]
    by_cases hee : e = ev
    · subst hee
      have := hb hE
      have := h.core.pubsOf_length_le e
      simp only [if_true, List.count_append, List.count_singleton_self]
      omega
    · have : (ev == e) = false := by simp [Ne.symm hee]
      simpa [hee, List.count_append, List.count_singleton, this]

/-- thread `t` publishes `ev` to the last listener and completes its send (one model step) -/
theorem FanInv.advanceFinish (h : FanInv s₀ Ev E R P S D s) {t ev i : Nat} {r : Res}
    (hi : i + 1 = (usedIds s₀.MAX s₀.vacant).length)
    (hf : frameOf s' = frameOf s) (ht : s'.thr = fun u => if u = t then .done r else s.thr u)
    (hp : s'.pubs = s.pubs ++ [(ev, (usedIds s₀.MAX s₀.vacant)[i])]) (hs : s'.sent = s.sent ++ [ev])
    (hd : s'.delivered = s.delivered)
    (hq : s'.queues = fun j => if j = (usedIds s₀.MAX s₀.vacant)[i] then s.queues j ++ [ev] else s.queues j)
    (hpt : prog (s.thr t) = some (ev, i))
    (hr : ∀ e, e ≠ ev → s'.refs e = s.refs e)
    (hrs : s.flavor = .ogreArc → ev ∈ Ev → s'.refs ev + R.count ev = (usedIds s₀.MAX s₀.vacant).length) :
    FanInv s₀ Ev E R (P ++ [(ev, (usedIds s₀.MAX s₀.vacant)[i])]) (S ++ [ev]) D s' := by
  have hact := h.core.act t ev i hpt
  refine ⟨hf.trans h.frame, fun u => ?_, by rw [hp, h.pubsEq, List.append_assoc],
    by rw [hs, h.sentEq, List.append_assoc], hd ▸ h.dlvEq, ?_, fun l => ?_, h.relLe, fun hfl e he hE => ?_⟩
  · rw [ht]
    by_cases hut : u = t
    · simp [hut, LocOK]
    · simp only [hut, if_false]
      refine h.lok_other hut (fun e he => ⟨hr e ?_, rfl⟩)
      rintro rfl; exact he _ hpt
  · have h1 := h.core.advance (t := t) hpt (by omega)
    have h2 := h1.finish (t := t) (ev := ev) (by simp [hi])
    refine h2.congr (fun u => ?_)
    rw [ht]
    by_cases hut : u = t
    · simp [hut, prog]
    · simp [hut]
  · rw [hq, pubsTo_append, pubsTo_single, ← List.append_assoc, ← h.order l]
    by_cases hl' : l = (usedIds s₀.MAX s₀.vacant)[i]
    · simp [hl']
    · simp [hl', Ne.symm hl']
  · have hfl' : s.flavor = .ogreArc := frameOf_flavor hf ▸ hfl
    rcases List.mem_append.1 he with he | he
    · rw [hr e (fun hh => hact.2.1 (hh ▸ he))]
      exact h.refsS hfl' e he hE
    · simp at he; subst he; exact hrs hfl' hE

end transitions

/-! ### every action of a fan-out execution preserves `FanInv` -/

theorem getD_plan_lt {mx : Nat} {v : List Nat} {i : Nat} (hi : i < (usedIds mx v).length) :
    (syncPlan mx v).getD i mx = (usedIds mx v)[i] := by
  simp [syncPlan_eq, List.getD_eq_getElem?_getD, List.getElem?_append_left hi, List.getElem?_eq_getElem hi]

theorem getD_plan_ge {mx : Nat} {v : List Nat} {i : Nat} (hi : (usedIds mx v).length ≤ i) :
    (syncPlan mx v).getD i mx = mx := by
  simp only [syncPlan_eq, List.getD_eq_getElem?_getD, List.getElem?_append_right hi, List.getElem?_replicate]
  split <;> rfl

theorem usedIds_getElem_ne {mx : Nat} {v : List Nat} {i : Nat} (hi : i < (usedIds mx v).length) :
    (usedIds mx v)[i] ≠ mx := usedIds_ne_max _ (List.getElem_mem hi)

theorem frame_facts {s s₀ : St} (hf : frameOf s = frameOf s₀) :
    s.MAX = s₀.MAX ∧ s.flavor = s₀.flavor ∧ s.used = s₀.used ∧ s.count = s₀.count := by
  simp only [frameOf, Prod.mk.injEq] at hf
  exact ⟨hf.1, hf.2.2.1, hf.2.2.2.2.2.1, hf.2.2.2.2.2.2.1⟩

section apply
variable {s₀ : St} {Ev E R : List Nat} {P : List (Nat × Nat)} {S : List Nat} {D : List (Nat × Nat × Nat)} {s : St}

/-- result shape: the lists only grow -/
def FanNext (s₀ : St) (Ev E R : List Nat) (P : List (Nat × Nat)) (S : List Nat) (D : List (Nat × Nat × Nat))
    (s' : St) : Prop :=
  ∃ P₁ S₁ D₁, FanInv s₀ Ev E R (P ++ P₁) (S ++ S₁) (D ++ D₁) s'

theorem FanNext.same (h : FanInv s₀ Ev E R P S D s) : FanNext s₀ Ev E R P S D s :=
  ⟨[], [], [], by simpa using h⟩

theorem FanNext.pub {s' : St} {x : Nat × Nat} (h : FanInv s₀ Ev E R (P ++ [x]) S D s') :
    FanNext s₀ Ev E R P S D s' := ⟨[x], [], [], by simpa using h⟩

theorem FanNext.snt {s' : St} {e : Nat} (h : FanInv s₀ Ev E R P (S ++ [e]) D s') :
    FanNext s₀ Ev E R P S D s' := ⟨[], [e], [], by simpa using h⟩

theorem FanNext.pubSnt {s' : St} {x : Nat × Nat} {e : Nat} (h : FanInv s₀ Ev E R (P ++ [x]) (S ++ [e]) D s') :
    FanNext s₀ Ev E R P S D s' := ⟨[x], [e], [], by simpa using h⟩

theorem FanNext.dlv {s' : St} {x : Nat × Nat × Nat} (h : FanInv s₀ Ev E R P S (D ++ [x]) s') :
    FanNext s₀ Ev E R P S D s' := ⟨[], [], [x], by simpa using h⟩

theorem fan_step (h : FanInv s₀ Ev E R P S D s) (hw : WF s₀) (hq0 : ∀ e, e ∈ Ev → ∀ l, e ∉ s₀.queues l) (t : Nat) :
    FanNext s₀ Ev E R P S D (step s t) := by
  obtain ⟨fM, fF, fU, fC⟩ := frame_facts h.frame
  have hU : s.used = syncPlan s₀.MAX s₀.vacant := fU.trans hw.usedEq
  have hC : s.count = (usedIds s₀.MAX s₀.vacant).length := by
    rw [fC, hw.countEq, hw.usedIds_length]
  have hlok := h.lok t
  cases hl : s.thr t <;> rw [hl] at hlok <;> simp only [LocOK] at hlok
  case idle => rw [step_idle hl]; exact .same h
  case done r => rw [step_done hl]; exact .same h
  case fArc ev i id =>
    obtain ⟨hid, hfl⟩ := hlok
    rw [hw.usedEq] at hid
    have hact := h.core.act t ev i (by simp [hl, prog])
    by_cases him : id = s.MAX
    · -- the sentinel: everybody has been served
      have hil : i = (usedIds s₀.MAX s₀.vacant).length := by
        rcases Nat.lt_or_ge i (usedIds s₀.MAX s₀.vacant).length with hlt | hge
        · rw [getD_plan_lt hlt] at hid
          exact absurd (hid ▸ him.trans fM) (usedIds_getElem_ne hlt)
        · exact Nat.le_antisymm hact.2.2.1 hge
      have hs : step s t = setThr { s with sent := s.sent ++ [ev] } t (.done .unit) := by
        simp only [step, hl, if_pos him]
      rw [hs]
      exact .snt (h.finish (t := t) (ev := ev) rfl rfl rfl rfl rfl rfl (by simp [hl, prog, hil]) (fun _ _ => rfl)
        (fun ho _ => by rw [fF, hfl] at ho; cases ho))
    · have hlt : i < (usedIds s₀.MAX s₀.vacant).length := by
        rcases Nat.lt_or_ge i (usedIds s₀.MAX s₀.vacant).length with hlt | hge
        · exact hlt
        · rw [getD_plan_ge hge] at hid
          exact absurd (hid.trans fM.symm) him
      rw [getD_plan_lt hlt] at hid
      subst hid
      by_cases hi1 : i + 1 < s.MAX
      · have hs : step s t = setThr (publish s ev (usedIds s₀.MAX s₀.vacant)[i]) t
            (.fArc ev (i + 1) (s.used.getD (i + 1) s.MAX)) := by
          simp only [step, hl, if_neg him, if_pos hi1]
        rw [hs]
        exact .pub (h.advance (t := t) (ev := ev) hlt rfl rfl rfl rfl rfl rfl (by simp [hl, prog]) rfl rfl
          (by simp only [LocOK]; exact ⟨by rw [fU, fM], hfl⟩))
      · have hs : step s t = setThr { publish s ev (usedIds s₀.MAX s₀.vacant)[i] with sent := s.sent ++ [ev] } t
            (.done .unit) := by
          simp only [step, hl, if_neg him, if_neg hi1]; rfl
        rw [hs]
        have hle := usedIds_length_le s₀.MAX s₀.vacant
        exact .pubSnt (h.advanceFinish (t := t) (ev := ev) (i := i) (by omega) rfl rfl rfl rfl rfl rfl
          (by simp [hl, prog]) (fun _ _ => rfl) (fun ho _ => by rw [fF, hfl] at ho; cases ho))
  case fCount ev =>
    have hact := h.core.act t ev 0 (by simp [hl, prog])
    have hR0 : ev ∈ Ev → R.count ev = 0 := fun hE => by
      have h1 := h.relLe ev hE
      have h2 := dcount_le_pubs h.order (hq0 ev hE)
      rw [hact.2.2.2.1] at h2
      simp at h2; omega
    by_cases h0 : s.count = 0
    · have hs : step s t = setThr { s with refs := fun e => if e = ev then s.refs e + s.count - 1 else s.refs e,
                                           sent := s.sent ++ [ev] } t (.done .unit) := by
        simp only [step, hl, if_pos h0]; st_eq
      rw [hs]
      exact .snt (h.finish (t := t) (ev := ev) rfl rfl rfl rfl rfl rfl (by simp [hl, prog]; omega)
        (fun e he => by simp [he]) (fun _ hE => by
          have := hR0 hE; have := hlok hE
          show (if ev = ev then s.refs ev + s.count - 1 else s.refs ev) + R.count ev = _
          rw [if_pos rfl]; omega))
    · have hs : step s t = setThr { s with refs := fun e => if e = ev then s.refs e + s.count else s.refs e } t
          (.fOgre ev 0 s.count) := by
        simp only [step, hl, if_neg h0]
      rw [hs]
      refine .same (h.relabel (t := t) rfl rfl rfl rfl rfl rfl (by simp [hl, prog]) (fun e he => ?_) ?_)
      · have : e ≠ ev := by rintro rfl; exact he 0 (by simp [hl, prog])
        simp [this]
      · show s.count = _ ∧ 0 < s.count ∧
          (ev ∈ Ev → (if ev = ev then s.refs ev + s.count else s.refs ev) + R.count ev = 1 + _)
        rw [if_pos rfl]
        exact ⟨hC, by omega, fun hE => by have := hR0 hE; have := hlok hE; omega⟩
  case fOgre ev i cnt =>
    obtain ⟨hcnt, hic, hrf⟩ := hlok
    subst hcnt
    have hg : s.used.getD i s.MAX = (usedIds s₀.MAX s₀.vacant)[i] := by rw [hU, fM, getD_plan_lt hic]
    have hne : (usedIds s₀.MAX s₀.vacant)[i] ≠ s.MAX := by rw [fM]; exact usedIds_getElem_ne hic
    have hact := h.core.act t ev i (by simp [hl, prog])
    have hRle : ev ∈ Ev → R.count ev ≤ (usedIds s₀.MAX s₀.vacant).length := fun hE => by
      have h1 := h.relLe ev hE
      have h2 := dcount_le_pubs h.order (hq0 ev hE)
      have h3 := h.core.pubsOf_length_le ev
      omega
    by_cases hi1 : i + 1 < (usedIds s₀.MAX s₀.vacant).length
    · have hs : step s t = setThr (publish s ev (usedIds s₀.MAX s₀.vacant)[i]) t
          (.fOgre ev (i + 1) (usedIds s₀.MAX s₀.vacant).length) := by
        simp only [step, hl, hg, if_neg hne, if_pos hi1]
      rw [hs]
      exact .pub (h.advance (t := t) (ev := ev) hic rfl rfl rfl rfl rfl rfl (by simp [hl, prog]) rfl rfl
        (by
          show (usedIds s₀.MAX s₀.vacant).length = _ ∧ i + 1 < _ ∧ (ev ∈ Ev → s.refs ev + R.count ev = 1 + _)
          exact ⟨rfl, hi1, hrf⟩))
    · have hs : step s t = setThr { publish s ev (usedIds s₀.MAX s₀.vacant)[i] with
            refs := fun e => if e = ev then s.refs e - 1 else s.refs e, sent := s.sent ++ [ev] } t (.done .unit) := by
        simp only [step, hl, hg, if_neg hne, if_neg hi1]; rfl
      rw [hs]
      exact .pubSnt (h.advanceFinish (t := t) (ev := ev) (i := i) (by omega) rfl rfl rfl rfl rfl rfl
        (by simp [hl, prog]) (fun e he => by simp [he]) (fun _ hE => by
          have := hRle hE; have := hrf hE
          show (if ev = ev then s.refs ev - 1 else s.refs ev) + R.count ev = _
          rw [if_pos rfl]; omega))
  case pPoll id =>
    cases hq : s.queues id with
    | nil =>
      have hs : step s t = setThr s t (.done (.item none)) := by simp only [step, hl, hq]
      rw [hs]
      exact .same (h.relabel (t := t) rfl rfl rfl rfl rfl rfl (by simp [hl, prog]) (fun _ _ => rfl) trivial)
    | cons ev rest =>
      have hs : step s t = setThr { s with queues := fun j => if j = id then rest else s.queues j,
                                           delivered := s.delivered ++ [(id, s.inc id, ev)] } t
          (.done (.item (some ev))) := by simp only [step, hl, hq]
      rw [hs]
      have h1 : FanInv s₀ Ev E R P S D (setThr s t (.done (.item (some ev)))) :=
        h.relabel (t := t) rfl rfl rfl rfl rfl rfl (by simp [hl, prog]) (fun _ _ => rfl) trivial
      exact .dlv (h1.deliver (id := id) (k := s.inc id) (ev := ev) (rest := rest) rfl rfl rfl rfl rfl hq rfl rfl)

theorem fan_apply (h : FanInv s₀ Ev E R P S D s) (hw : WF s₀) (hq0 : ∀ e, e ∈ Ev → ∀ l, e ∉ s₀.queues l)
    (a : Act) (ha : FanAct a) (hsend : ∀ ev, ev ∈ sendOf a → ev ∉ E)
    (hrel : ∀ ev, ev ∈ relOf a → ev ∈ Ev → R.count ev < dcount D ev) :
    FanNext s₀ Ev (E ++ sendOf a) (R ++ relOf a) P S D (apply s a) := by
  obtain ⟨fM, fF, fU, fC⟩ := frame_facts h.frame
  cases a with
  | create t => exact absurd ha (by simp [FanAct])
  | drop t id => exact absurd ha (by simp [FanAct])
  | send t ev =>
    have hfr := hsend ev (by simp [sendOf])
    simp only [sendOf, relOf, List.append_nil]
    by_cases hi : s.thr t = .idle
    · have hfl : s.flavor = .arc ∨ s.flavor = .ogreArc := by cases s.flavor <;> simp
      have hpt : prog (s.thr t) = none := by rw [hi]; rfl
      rcases hfl with hf | hf
      · by_cases hm : s.MAX = 0
        · have hs : apply s (.send t ev) = setThr { s with sent := s.sent ++ [ev] } t (.done .unit) := by
            simp only [apply, hi, if_pos, hf, hm]
          rw [hs]
          exact .snt (h.startFinish (t := t) hfr (by rw [← fM, hm, usedIds_zero]) rfl rfl rfl rfl rfl rfl hpt rfl hf)
        · have hs : apply s (.send t ev) = setThr s t (.fArc ev 0 (s.used.getD 0 s.MAX)) := by
            simp only [apply, hi, if_pos, hf, if_neg hm]
          rw [hs]
          exact .same (h.start (t := t) hfr rfl rfl rfl rfl rfl rfl hpt rfl (fun _ _ => rfl)
            (by show _ ∧ _; exact ⟨by rw [fU, fM], fF ▸ hf⟩))
      · by_cases hacc : (s.started.filter (fun e => s.refs e > 0)).length < s.N
        · have hs : apply s (.send t ev) = setThr { s with refs := fun e => if e = ev then 1 else s.refs e,
                                                           started := s.started ++ [ev] } t (.fCount ev) := by
            simp only [apply, hi, if_pos, hf, hacc]
          rw [hs]
          exact .same (h.start (t := t) hfr rfl rfl rfl rfl rfl rfl hpt rfl (fun e he => by simp [he])
            (by show _ → (if ev = ev then 1 else s.refs ev) = 1; rw [if_pos rfl]; exact fun _ => rfl))
        · have hs : apply s (.send t ev) = setThr s t (.done .full) := by
            simp only [apply, hi, if_pos, hf, if_neg hacc]
          rw [hs]
          have h1 : FanInv s₀ Ev E R P S D (setThr s t (.done .full)) :=
            h.relabel (t := t) rfl rfl rfl rfl rfl rfl (by rw [hi]; rfl) (fun _ _ => rfl) trivial
          exact .same (h1.mono ev)
    · have hs : apply s (.send t ev) = s := by simp only [apply, if_neg hi]
      rw [hs]
      exact .same (h.mono ev)
  | poll t id =>
    simp only [sendOf, relOf, List.append_nil]
    by_cases hi : s.thr t = .idle
    · have hs : apply s (.poll t id) = setThr s t (.pPoll id) := by simp only [apply, hi, if_pos]
      rw [hs]
      exact .same (h.relabel (t := t) rfl rfl rfl rfl rfl rfl (by rw [hi]; rfl) (fun _ _ => rfl) trivial)
    · have hs : apply s (.poll t id) = s := by simp only [apply, if_neg hi]
      rw [hs]; exact .same h
  | release ev =>
    simp only [sendOf, relOf, List.append_nil]
    exact .same (h.release hq0 (hrel ev (by simp [relOf])) rfl rfl rfl rfl rfl rfl rfl)
  | cancel id =>
    simp only [sendOf, relOf, List.append_nil]
    exact .same ⟨h.frame, h.lok, h.pubsEq, h.sentEq, h.dlvEq, h.core, h.order, h.relLe, h.refsS⟩
  | step t =>
    simp only [sendOf, relOf, List.append_nil]
    exact fan_step h hw hq0 t
  | ack t =>
    simp only [sendOf, relOf, List.append_nil]
    cases hl : s.thr t with
    | done r =>
      have hs : apply s (.ack t) = setThr s t .idle := by simp only [apply, hl]
      rw [hs]
      exact .same (h.relabel (t := t) rfl rfl rfl rfl rfl rfl (by rw [hl]; rfl) (fun _ _ => rfl) trivial)
    | _ =>
      have hs : apply s (.ack t) = s := by simp only [apply, hl]
      rw [hs]; exact .same h

end apply

/-! ## the frame alone (no hypothesis on the events) -/

/-- the thread is not inside `create`, `drop` or `sync` -/
def FanLoc : Loc → Prop
  | .idle | .done _ | .fArc _ _ _ | .fCount _ | .fOgre _ _ _ | .pPoll _ => True
  | _ => False

theorem fanLoc_setThr {s : St} {t : Nat} {l : Loc} (h : ∀ u, FanLoc (s.thr u)) (hl : FanLoc l) :
    ∀ u, FanLoc ((setThr s t l).thr u) := by
  intro u; simp only [thr_setThr]; split
  · exact hl
  · exact h u

theorem frame_step {s : St} (t : Nat) (hl : ∀ u, FanLoc (s.thr u)) :
    frameOf (step s t) = frameOf s ∧ ∀ u, FanLoc ((step s t).thr u) := by
  have ht := hl t
  cases hc : s.thr t <;> rw [hc] at ht <;> simp only [FanLoc] at ht <;> simp only [step, hc]
  case idle => exact ⟨trivial, hl⟩
  case done => exact ⟨trivial, hl⟩
  case fArc ev i id =>
    split
    · exact ⟨rfl, fanLoc_setThr hl trivial⟩
    · split
      · exact ⟨rfl, fanLoc_setThr hl trivial⟩
      · exact ⟨rfl, fanLoc_setThr hl trivial⟩
  case fCount ev =>
    split
    · exact ⟨rfl, fanLoc_setThr hl trivial⟩
    · exact ⟨rfl, fanLoc_setThr hl trivial⟩
  case fOgre ev i cnt =>
    split <;> split <;> exact ⟨rfl, fanLoc_setThr hl trivial⟩
  case pPoll id =>
    split
    · exact ⟨rfl, fanLoc_setThr hl trivial⟩
    · exact ⟨rfl, fanLoc_setThr hl trivial⟩

theorem frame_apply {s : St} (a : Act) (ha : FanAct a) (hl : ∀ u, FanLoc (s.thr u)) :
    frameOf (apply s a) = frameOf s ∧ ∀ u, FanLoc ((apply s a).thr u) := by
  cases a with
  | create t => exact absurd ha (by simp [FanAct])
  | drop t id => exact absurd ha (by simp [FanAct])
  | send t ev =>
    simp only [apply]
    split
    · split
      · split
        · exact ⟨rfl, fanLoc_setThr hl trivial⟩
        · exact ⟨rfl, fanLoc_setThr hl trivial⟩
      · split
        · exact ⟨rfl, fanLoc_setThr hl trivial⟩
        · exact ⟨rfl, fanLoc_setThr hl trivial⟩
    · exact ⟨rfl, hl⟩
  | poll t id =>
    simp only [apply]
    split
    · exact ⟨rfl, fanLoc_setThr hl trivial⟩
    · exact ⟨rfl, hl⟩
  | release ev => exact ⟨rfl, hl⟩
  | cancel id => exact ⟨rfl, hl⟩
  | step t => exact frame_step t hl
  | ack t =>
    simp only [apply]
    split
    · exact ⟨rfl, fanLoc_setThr hl trivial⟩
    · exact ⟨rfl, hl⟩

theorem frame_run : ∀ (as : List Act) {s : St}, (∀ a, a ∈ as → FanAct a) → (∀ u, FanLoc (s.thr u)) →
    frameOf (run s as) = frameOf s ∧ ∀ u, FanLoc ((run s as).thr u)
  | [], _, _, hl => ⟨rfl, hl⟩
  | a :: as, s, hfa, hl => by
    obtain ⟨h1, h2⟩ := frame_apply a (hfa a (by simp)) hl
    obtain ⟨h3, h4⟩ := frame_run as (fun b hb => hfa b (by simp [hb])) h2
    exact ⟨h3.trans h1, h4⟩

/-! ## `keep` changes at `.cancel` only -/

/-- the listener told to end -/
def cancelOf : Act → List Nat
  | .cancel id => [id]
  | _ => []

def cancelIds (as : List Act) : List Nat := as.flatMap cancelOf

theorem keep_step {s : St} (t : Nat) (hl : FanLoc (s.thr t)) : (step s t).keep = s.keep := by
  cases hc : s.thr t <;> rw [hc] at hl <;> simp only [FanLoc] at hl <;> simp only [step, hc]
  case fArc ev i id => split <;> (try split) <;> rfl
  case fCount ev => split <;> rfl
  case fOgre ev i cnt => split <;> split <;> rfl
  case pPoll id => split <;> rfl

theorem keep_apply {s : St} (a : Act) (ha : FanAct a) (hl : ∀ u, FanLoc (s.thr u)) (j : Nat) :
    (apply s a).keep j = if j ∈ cancelOf a then false else s.keep j := by
  cases a with
  | create t => exact absurd ha (by simp [FanAct])
  | drop t id => exact absurd ha (by simp [FanAct])
  | send t ev =>
    simp only [apply, cancelOf, List.not_mem_nil, if_false]
    split
    · split
      · split <;> rfl
      · split <;> rfl
    · rfl
  | poll t id => simp only [apply, cancelOf, List.not_mem_nil, if_false]; split <;> rfl
  | release ev => rfl
  | cancel id => simp [apply, cancelOf]
  | step t => simp only [apply, cancelOf, List.not_mem_nil, if_false]; rw [keep_step t (hl t)]
  | ack t => simp only [apply, cancelOf, List.not_mem_nil, if_false]; split <;> rfl

/-- along a fan-out execution `keep j` is cleared by `.cancel j` and otherwise never changes -/
theorem keep_run : ∀ (as : List Act) {s : St}, (∀ a, a ∈ as → FanAct a) → (∀ u, FanLoc (s.thr u)) → ∀ j,
    (run s as).keep j = if j ∈ cancelIds as then false else s.keep j
  | [], _, _, _, _ => by simp [cancelIds]
  | a :: as, s, hfa, hl, j => by
    have ha := hfa a (by simp)
    rw [run_cons, keep_run as (fun b hb => hfa b (by simp [hb])) (frame_apply a ha hl).2 j, keep_apply a ha hl j]
    simp only [cancelIds, List.flatMap_cons, List.mem_append]
    by_cases h1 : j ∈ cancelOf a <;> by_cases h2 : j ∈ as.flatMap cancelOf <;> simp [h1, h2]

/-! ## per-listener queue order (no hypothesis on the events) -/

/-- what one action does to `pubs`, `queues`, `delivered`: nothing, one publication, or one delivery -/
inductive Effect (s s' : St) : Prop where
  | silent (hp : s'.pubs = s.pubs) (hq : s'.queues = s.queues) (hd : s'.delivered = s.delivered)
  | pub (ev id : Nat) (hp : s'.pubs = s.pubs ++ [(ev, id)])
      (hq : s'.queues = fun j => if j = id then s.queues j ++ [ev] else s.queues j) (hd : s'.delivered = s.delivered)
  | dlv (id k ev : Nat) (rest : List Nat) (hq0 : s.queues id = ev :: rest) (hp : s'.pubs = s.pubs)
      (hq : s'.queues = fun j => if j = id then rest else s.queues j)
      (hd : s'.delivered = s.delivered ++ [(id, k, ev)])

theorem effect_step {s : St} (t : Nat) (hl : FanLoc (s.thr t)) : Effect s (step s t) := by
  cases hc : s.thr t <;> rw [hc] at hl <;> simp only [FanLoc] at hl <;> simp only [step, hc]
  case idle => exact .silent rfl rfl rfl
  case done => exact .silent rfl rfl rfl
  case fArc ev i id =>
    split
    · exact .silent rfl rfl rfl
    · split
      · exact .pub ev id rfl rfl rfl
      · exact .pub ev id rfl rfl rfl
  case fCount ev =>
    split
    · exact .silent rfl rfl rfl
    · exact .silent rfl rfl rfl
  case fOgre ev i cnt =>
    split <;> split
    · exact .silent rfl rfl rfl
    · exact .pub ev _ rfl rfl rfl
    · exact .silent rfl rfl rfl
    · exact .pub ev _ rfl rfl rfl
  case pPoll id =>
    split
    · rename_i ev rest hq
      exact .dlv id (s.inc id) ev rest hq rfl rfl rfl
    · exact .silent rfl rfl rfl

theorem effect_apply {s : St} (a : Act) (ha : FanAct a) (hl : ∀ u, FanLoc (s.thr u)) : Effect s (apply s a) := by
  cases a with
  | create t => exact absurd ha (by simp [FanAct])
  | drop t id => exact absurd ha (by simp [FanAct])
  | send t ev =>
    simp only [apply]
    split
    · split
      · split <;> exact .silent rfl rfl rfl
      · split <;> exact .silent rfl rfl rfl
    · exact .silent rfl rfl rfl
  | poll t id => simp only [apply]; split <;> exact .silent rfl rfl rfl
  | release ev => exact .silent rfl rfl rfl
  | cancel id => exact .silent rfl rfl rfl
  | step t => exact effect_step t (hl t)
  | ack t => simp only [apply]; split <;> exact .silent rfl rfl rfl

/-- delivered ++ queued = initially queued ++ published, per listener, along any fan-out execution -/
theorem order_run {s₀ : St} : ∀ (as : List Act) {s : St} {P : List (Nat × Nat)} {D : List (Nat × Nat × Nat)},
    (∀ a, a ∈ as → FanAct a) → (∀ u, FanLoc (s.thr u)) → s.pubs = s₀.pubs ++ P → s.delivered = s₀.delivered ++ D →
    (∀ l, dlvOf D l ++ s.queues l = s₀.queues l ++ pubsTo P l) →
    ∃ P₁ D₁, (run s as).pubs = s₀.pubs ++ (P ++ P₁) ∧ (run s as).delivered = s₀.delivered ++ (D ++ D₁) ∧
      ∀ l, dlvOf (D ++ D₁) l ++ (run s as).queues l = s₀.queues l ++ pubsTo (P ++ P₁) l
  | [], s, P, D, _, _, hp, hd, ho => ⟨[], [], by simpa using hp, by simpa using hd, by simpa using ho⟩
  | a :: as, s, P, D, hfa, hl, hp, hd, ho => by
    have hfl := (frame_apply a (hfa a (by simp)) hl).2
    have hrest : ∀ b, b ∈ as → FanAct b := fun b hb => hfa b (by simp [hb])
    rcases effect_apply a (hfa a (by simp)) hl with ⟨ep, eq, ed⟩ | ⟨ev, id, ep, eq, ed⟩ | ⟨id, k, ev, rest, eq0, ep, eq, ed⟩
    · exact order_run as hrest hfl (ep ▸ hp) (ed ▸ hd) (eq ▸ ho)
    · obtain ⟨P₁, D₁, h1, h2, h3⟩ := order_run as (P := P ++ [(ev, id)]) (D := D) hrest hfl
        (by rw [ep, hp, List.append_assoc]) (ed ▸ hd) (fun l => by
          rw [eq, pubsTo_append, pubsTo_single, ← List.append_assoc, ← ho l]
          by_cases hl' : l = id
          · simp [hl']
          · simp [hl', Ne.symm hl'])
      exact ⟨(ev, id) :: P₁, D₁, by simpa using h1, h2, by simpa using h3⟩
    · obtain ⟨P₁, D₁, h1, h2, h3⟩ := order_run as (P := P) (D := D ++ [(id, k, ev)]) hrest hfl
        (ep ▸ hp) (by rw [ed, hd, List.append_assoc]) (fun l => by
          rw [eq, dlvOf_append, ← ho l]
          by_cases hl' : l = id
          · subst hl'; simp [dlvOf, eq0]
          · simp [dlvOf, hl', Ne.symm hl'])
      exact ⟨P₁, (id, k, ev) :: D₁, h1, by simpa using h2, by simpa using h3⟩

/-! ## threads that do not act stay where they are; a fan-out execution that ends quiescent ends well-formed -/

set_option linter.unusedSimpArgs false in
theorem thr_step_other (s : St) {t u : Nat} (h : u ≠ t) : (step s t).thr u = s.thr u := by
  unfold step
  split <;> (try split) <;> (try split) <;> simp [h] <;> split <;> simp [h]

/-- the thread an action is performed by -/
def thrOf : Act → List Nat
  | .create t | .drop t _ | .send t _ | .poll t _ | .step t | .ack t => [t]
  | .release _ | .cancel _ => []

theorem thr_apply_other (s : St) (a : Act) {u : Nat} (h : u ∉ thrOf a) : (apply s a).thr u = s.thr u := by
  cases a <;> simp only [thrOf, List.mem_singleton, List.not_mem_nil, not_false_eq_true] at h <;> simp only [apply]
  · split <;> simp [h]
  · split <;> simp [h]
  · split
    · split
      · split <;> simp [h]
      · split <;> simp [h]
    · rfl
  · split <;> simp [h]
  · exact thr_step_other s h
  · split <;> simp [h]

theorem thr_run_other : ∀ (as : List Act) (s : St) {u : Nat}, u ∉ as.flatMap thrOf → (run s as).thr u = s.thr u
  | [], _, _, _ => rfl
  | a :: as, s, u, h => by
    simp only [List.flatMap_cons, List.mem_append, not_or] at h
    rw [run_cons, thr_run_other as _ h.2, thr_apply_other s a h.1]

theorem wf_of_frame {s₀ s : St} (hw : WF s₀) (hf : frameOf s = frameOf s₀) (hi : ∀ t, s.thr t = .idle) : WF s := by
  simp only [frameOf, Prod.mk.injEq] at hf
  obtain ⟨a, b, c, d, e, f, g, i, j, k⟩ := hf
  obtain ⟨w1, w2, w3, w4, w5, w6, w7, w8, w9⟩ := hw
  exact ⟨hi, i ▸ w2, j ▸ w3, e ▸ w4, by rw [e, a]; exact w5, by rw [j, a]; exact w6, by rw [e, j, a]; exact w7,
    by rw [g, j]; exact w8, by rw [f, a, e]; exact w9⟩

/-- a fan-out execution after which every thread that acted is idle again ends in a `WF` state -/
theorem wf_fan_idle {s₀ : St} (hw : WF s₀) (as : List Act) (hfa : ∀ a, a ∈ as → FanAct a)
    (hi : ∀ t, t ∈ as.flatMap thrOf → (run s₀ as).thr t = .idle) : WF (run s₀ as) := by
  refine wf_of_frame hw (frame_run as hfa (fun u => by rw [hw.idle u]; trivial)).1 (fun t => ?_)
  by_cases ht : t ∈ as.flatMap thrOf
  · exact hi t ht
  · rw [thr_run_other as s₀ ht, hw.idle t]

/-! ## whole executions -/

/-- consumers release only handles they received: at every `.release ev` of an event of `Ev`, the releases of `ev` so
    far are fewer than the deliveries of `ev` since `s₀` -/
def RelOK (s₀ : St) (Ev : List Nat) : St → List Nat → List Act → Prop
  | _, _, [] => True
  | s, R, a :: as =>
      (∀ ev, ev ∈ relOf a → ev ∈ Ev → R.count ev < dcount (s.delivered.drop s₀.delivered.length) ev) ∧
        RelOK s₀ Ev (apply s a) (R ++ relOf a) as

instance (s₀ : St) (Ev : List Nat) : (s : St) → (R : List Nat) → (as : List Act) → Decidable (RelOK s₀ Ev s R as)
  | _, _, [] => isTrue trivial
  | s, R, a :: as =>
    have := instDecidableRelOK s₀ Ev (apply s a) (R ++ relOf a) as
    by simp only [RelOK]; infer_instance

theorem relOK_nil_Ev (s₀ : St) : ∀ (as : List Act) (s : St) (R : List Nat), RelOK s₀ [] s R as
  | [], _, _ => trivial
  | a :: as, s, R => by
    simp only [RelOK]
    exact ⟨fun _ _ h => absurd h List.not_mem_nil, relOK_nil_Ev s₀ as _ _⟩

@[simp] theorem sendEvs_nil : sendEvs [] = [] := rfl
@[simp] theorem relEvs_nil : relEvs [] = [] := rfl
theorem sendEvs_cons (a : Act) (as : List Act) : sendEvs (a :: as) = sendOf a ++ sendEvs as := rfl
theorem relEvs_cons (a : Act) (as : List Act) : relEvs (a :: as) = relOf a ++ relEvs as := rfl
theorem sendEvs_append (as bs : List Act) : sendEvs (as ++ bs) = sendEvs as ++ sendEvs bs := by
  simp [sendEvs]
theorem relEvs_append (as bs : List Act) : relEvs (as ++ bs) = relEvs as ++ relEvs bs := by
  simp [relEvs]

theorem fan_run {s₀ : St} {Ev : List Nat} (hw : WF s₀) (hq0 : ∀ e, e ∈ Ev → ∀ l, e ∉ s₀.queues l) :
    ∀ (as : List Act) {E R : List Nat} {P : List (Nat × Nat)} {S : List Nat} {D : List (Nat × Nat × Nat)} {s : St},
      FanInv s₀ Ev E R P S D s → (∀ a, a ∈ as → FanAct a) → (E ++ sendEvs as).Nodup → RelOK s₀ Ev s R as →
      ∃ P₁ S₁ D₁, FanInv s₀ Ev (E ++ sendEvs as) (R ++ relEvs as) (P ++ P₁) (S ++ S₁) (D ++ D₁) (run s as)
  | [], E, R, P, S, D, s, h, _, _, _ => ⟨[], [], [], by simpa using h⟩
  | a :: as, E, R, P, S, D, s, h, hfa, hnd, hrel => by
    have hdrop : s.delivered.drop s₀.delivered.length = D := by rw [h.dlvEq, List.drop_left]
    obtain ⟨P₁, S₁, D₁, h1⟩ := fan_apply h hw hq0 a (hfa a (by simp))
      (fun ev he hE => by
        rw [sendEvs_cons, List.nodup_append] at hnd
        exact hnd.2.2 ev hE ev (by simp [he]) rfl)
      (fun ev he hE => hdrop ▸ hrel.1 ev he hE)
    obtain ⟨P₂, S₂, D₂, h2⟩ := fan_run hw hq0 as h1 (fun b hb => hfa b (by simp [hb]))
      (by rw [sendEvs_cons, ← List.append_assoc] at hnd; exact hnd) hrel.2
    refine ⟨P₁ ++ P₂, S₁ ++ S₂, D₁ ++ D₂, ?_⟩
    rw [run_cons, sendEvs_cons, relEvs_cons]
    simpa [List.append_assoc] using h2

/-- `FanInv` at the end of an execution that starts in a `WF` state -/
theorem fan_run_wf {s₀ : St} (hw : WF s₀) (Ev : List Nat) (as : List Act) (hq0 : ∀ e, e ∈ Ev → ∀ l, e ∉ s₀.queues l)
    (hfa : ∀ a, a ∈ as → FanAct a) (hnd : (sendEvs as).Nodup) (hrel : RelOK s₀ Ev s₀ [] as) :
    ∃ P S D, FanInv s₀ Ev (sendEvs as) (relEvs as) P S D (run s₀ as) := by
  obtain ⟨P, S, D, h⟩ := fan_run hw hq0 as (fanInv_init hw Ev) hfa (by simpa using hnd) hrel
  exact ⟨P, S, D, by simpa using h⟩

/-- … without the hypotheses needed for the reference-counter accounting -/
theorem fan_run_wf' {s₀ : St} (hw : WF s₀) (as : List Act)
    (hfa : ∀ a, a ∈ as → FanAct a) (hnd : (sendEvs as).Nodup) :
    ∃ P S D, FanInv s₀ [] (sendEvs as) (relEvs as) P S D (run s₀ as) :=
  fan_run_wf hw [] as (fun _ h => absurd h List.not_mem_nil) hfa hnd (relOK_nil_Ev s₀ as s₀ [])

/-- the invariant at an intermediate point and at the end: the ghost lists only grow -/
theorem fan_split {s₀ : St} (hw : WF s₀) (as₁ as₂ : List Act)
    (hfa : ∀ a, a ∈ as₁ ++ as₂ → FanAct a) (hnd : (sendEvs (as₁ ++ as₂)).Nodup) :
    ∃ P₁ S₁ D₁ P₂ S₂ D₂, FanInv s₀ [] (sendEvs as₁) (relEvs as₁) P₁ S₁ D₁ (run s₀ as₁) ∧
      FanInv s₀ [] (sendEvs (as₁ ++ as₂)) (relEvs (as₁ ++ as₂)) (P₁ ++ P₂) (S₁ ++ S₂) (D₁ ++ D₂)
        (run s₀ (as₁ ++ as₂)) := by
  rw [sendEvs_append] at hnd
  obtain ⟨P₁, S₁, D₁, h1⟩ := fan_run_wf' hw as₁ (fun a ha => hfa a (by simp [ha])) (List.nodup_append.1 hnd).1
  obtain ⟨P₂, S₂, D₂, h2⟩ := fan_run hw (Ev := []) (fun _ h => absurd h List.not_mem_nil) as₂ h1
    (fun a ha => hfa a (by simp [ha])) hnd (relOK_nil_Ev s₀ as₂ _ _)
  exact ⟨P₁, S₁, D₁, P₂, S₂, D₂, h1, by rw [run_append, sendEvs_append, relEvs_append]; exact h2⟩

/-! ### consequences of `FanInv` -/

section consequences
variable {s₀ : St} {Ev E R : List Nat} {P : List (Nat × Nat)} {S : List Nat} {D : List (Nat × Nat × Nat)} {s : St}

theorem FanInv.count_done (h : FanInv s₀ Ev E R P S D s) (hw : WF s₀) {ev : Nat} (he : ev ∈ S) (l : Nat) :
    P.count (ev, l) = if l ∈ s₀.live then 1 else 0 := by
  rw [count_pair, (h.core.fin ev he).2, (usedIds_nodup _ _).count]
  simp only [hw.mem_usedIds']

theorem FanInv.count_le_one (h : FanInv s₀ Ev E R P S D s) (ev l : Nat) : P.count (ev, l) ≤ 1 := by
  obtain ⟨i, _, hi⟩ := h.core.pubsOf_cases ev
  rw [count_pair, hi]
  have h1 := (List.take_sublist i (usedIds s₀.MAX s₀.vacant)).count_le l
  have h2 := (usedIds_nodup s₀.MAX s₀.vacant).count (a := l)
  split at h2 <;> omega

theorem FanInv.not_mem_of_not_live (h : FanInv s₀ Ev E R P S D s) (hw : WF s₀) {ev l : Nat} (hl : l ∉ s₀.live) :
    (ev, l) ∉ P := by
  intro hm
  obtain ⟨i, _, hi⟩ := h.core.pubsOf_cases ev
  have := mem_pubsOf.2 hm
  rw [hi] at this
  exact hl (hw.mem_usedIds'.1 (List.mem_of_mem_take this))

end consequences

/-! ## a producer thread's sends are sequential

`own_run`: a thread inside a send of `ev` was given `ev` by a `.send` action of that very thread;
`quiet_run`: an event that is neither being sent nor passed to a later `.send` is never completed later. -/

/-- what a step of thread `t` does to its own progress and to `sent` -/
inductive PEff (s s' : St) (t : Nat) : Prop where
  | keep (h : prog (s'.thr t) = prog (s.thr t)) (hs : s'.sent = s.sent)
  | adv (ev i : Nat) (h0 : prog (s.thr t) = some (ev, i)) (h1 : prog (s'.thr t) = some (ev, i + 1))
      (hs : s'.sent = s.sent)
  | fin (ev i : Nat) (h0 : prog (s.thr t) = some (ev, i)) (h1 : prog (s'.thr t) = none) (hs : s'.sent = s.sent ++ [ev])

theorem peff_step {s : St} (t : Nat) (hl : FanLoc (s.thr t)) : PEff s (step s t) t := by
  cases hc : s.thr t <;> rw [hc] at hl <;> simp only [FanLoc] at hl
  case idle => rw [step_idle hc]; exact .keep rfl rfl
  case done r => rw [step_done hc]; exact .keep rfl rfl
  case fArc ev i id =>
    simp only [step, hc]
    split
    · exact .fin ev i (by simp [hc, prog]) (by simp [prog]) rfl
    · split
      · exact .adv ev i (by simp [hc, prog]) (by simp [prog]) rfl
      · exact .fin ev i (by simp [hc, prog]) (by simp [prog]) rfl
  case fCount ev =>
    simp only [step, hc]
    split
    · exact .fin ev 0 (by simp [hc, prog]) (by simp [prog]) rfl
    · exact .keep (by simp [hc, prog]) rfl
  case fOgre ev i cnt =>
    simp only [step, hc]
    split <;> split
    · exact .adv ev i (by simp [hc, prog]) (by simp [prog]) rfl
    · exact .adv ev i (by simp [hc, prog]) (by simp [prog]) rfl
    · exact .fin ev i (by simp [hc, prog]) (by simp [prog]) rfl
    · exact .fin ev i (by simp [hc, prog]) (by simp [prog]) rfl
  case pPoll id =>
    simp only [step, hc]
    split
    · exact .keep (by simp [hc, prog]) rfl
    · exact .keep (by simp [hc, prog]) rfl

/-- a `.send u ev'` action: every thread's progress is unchanged or it is `u` starting on `ev'`; `sent` grows at most
    by `ev'` -/
theorem send_effect (s : St) (u ev' : Nat) :
    (∀ t e i, prog ((apply s (.send u ev')).thr t) = some (e, i) →
        prog (s.thr t) = some (e, i) ∨ (t = u ∧ e = ev')) ∧
      ((apply s (.send u ev')).sent = s.sent ∨ (apply s (.send u ev')).sent = s.sent ++ [ev']) := by
  simp only [apply]
  split
  · split
    · split
      · refine ⟨fun t e i h => ?_, .inr rfl⟩
        simp only [thr_setThr] at h
        split at h
        · simp [prog] at h
        · exact .inl h
      · refine ⟨fun t e i h => ?_, .inl rfl⟩
        simp only [thr_setThr] at h
        split at h
        · simp [prog] at h; exact .inr ⟨by assumption, h.1.symm⟩
        · exact .inl h
    · split
      · refine ⟨fun t e i h => ?_, .inl rfl⟩
        simp only [thr_setThr] at h
        split at h
        · simp [prog] at h; exact .inr ⟨by assumption, h.1.symm⟩
        · exact .inl h
      · refine ⟨fun t e i h => ?_, .inl rfl⟩
        simp only [thr_setThr] at h
        split at h
        · simp [prog] at h
        · exact .inl h
  · exact ⟨fun t e i h => .inl h, .inl rfl⟩

/-- `poll`, `release`, `cancel`, `ack`: no thread's progress changes, `sent` does not change -/
theorem other_effect (s : St) (a : Act) (ha : FanAct a) (h1 : ∀ u ev, a ≠ .send u ev) (h2 : ∀ u, a ≠ .step u) :
    (∀ t e i, prog ((apply s a).thr t) = some (e, i) → prog (s.thr t) = some (e, i)) ∧ (apply s a).sent = s.sent := by
  cases a with
  | create t => exact absurd ha (by simp [FanAct])
  | drop t id => exact absurd ha (by simp [FanAct])
  | send u ev => exact absurd rfl (h1 u ev)
  | step u => exact absurd rfl (h2 u)
  | poll u id =>
    simp only [apply]
    split
    · refine ⟨fun t e i h => ?_, rfl⟩
      simp only [thr_setThr] at h
      split at h
      · simp [prog] at h
      · exact h
    · exact ⟨fun _ _ _ h => h, rfl⟩
  | release ev => exact ⟨fun _ _ _ h => h, rfl⟩
  | cancel id => exact ⟨fun _ _ _ h => h, rfl⟩
  | ack u =>
    simp only [apply]
    split
    · refine ⟨fun t e i h => ?_, rfl⟩
      simp only [thr_setThr] at h
      split at h
      · simp [prog] at h
      · exact h
    · exact ⟨fun _ _ _ h => h, rfl⟩

/-- one action: an active `(t, e)` afterwards was active before, or the action is `.send t e`; `sent` grows by at most
    one event, which was active before or is the event of the `.send` -/
theorem act_effect {s : St} (a : Act) (ha : FanAct a) (hl : ∀ u, FanLoc (s.thr u)) :
    (∀ t e i, prog ((apply s a).thr t) = some (e, i) → (∃ j, prog (s.thr t) = some (e, j)) ∨ a = .send t e) ∧
      ((apply s a).sent = s.sent ∨
        ∃ e, (apply s a).sent = s.sent ++ [e] ∧ ((∃ t j, prog (s.thr t) = some (e, j)) ∨ ∃ u, a = .send u e)) := by
  by_cases h1 : ∃ u ev, a = .send u ev
  · obtain ⟨u, ev, rfl⟩ := h1
    obtain ⟨e1, e2⟩ := send_effect s u ev
    refine ⟨fun t e i h => ?_, ?_⟩
    · rcases e1 t e i h with h | ⟨rfl, rfl⟩
      · exact .inl ⟨i, h⟩
      · exact .inr rfl
    · rcases e2 with h | h
      · exact .inl h
      · exact .inr ⟨ev, h, .inr ⟨u, rfl⟩⟩
  · by_cases h2 : ∃ u, a = .step u
    · obtain ⟨u, rfl⟩ := h2
      show (∀ t e i, prog ((step s u).thr t) = some (e, i) → _) ∧ ((step s u).sent = s.sent ∨ _)
      have hp := peff_step u (hl u)
      refine ⟨fun t e i h => ?_, ?_⟩
      · by_cases htu : t = u
        · subst htu
          rcases hp with ⟨k, _⟩ | ⟨ev, j, k0, k1, _⟩ | ⟨ev, j, k0, k1, _⟩
          · exact .inl ⟨i, by rw [← k, h]⟩
          · rw [k1] at h; simp at h; exact .inl ⟨j, by rw [k0, h.1]⟩
          · rw [k1] at h; cases h
        · rw [thr_step_other s htu] at h; exact .inl ⟨i, h⟩
      · rcases hp with ⟨_, k⟩ | ⟨ev, j, _, _, k⟩ | ⟨ev, j, k0, _, k⟩
        · exact .inl k
        · exact .inl k
        · exact .inr ⟨ev, k, .inl ⟨u, j, k0⟩⟩
    · obtain ⟨e1, e2⟩ := other_effect s a ha (fun u ev h => h1 ⟨u, ev, h⟩) (fun u h => h2 ⟨u, h⟩)
      exact ⟨fun t e i h => .inl ⟨i, e1 t e i h⟩, .inl e2⟩

/-- a thread inside a send of `e` was handed `e` by one of its own `.send` actions -/
theorem own_run : ∀ (as : List Act) {s : St} {A : List Act}, (∀ a, a ∈ as → FanAct a) → (∀ u, FanLoc (s.thr u)) →
    (∀ t e i, prog (s.thr t) = some (e, i) → Act.send t e ∈ A) →
    ∀ t e i, prog ((run s as).thr t) = some (e, i) → Act.send t e ∈ A ++ as
  | [], _, _, _, _, h, t, e, i, hp => by simpa using h t e i hp
  | a :: as, s, A, hfa, hl, h, t, e, i, hp => by
    have := own_run as (s := apply s a) (A := A ++ [a]) (fun b hb => hfa b (by simp [hb]))
      (frame_apply a (hfa a (by simp)) hl).2 (fun t e i hp => by
        rcases (act_effect a (hfa a (by simp)) hl).1 t e i hp with ⟨j, hj⟩ | rfl
        · simp [h t e j hj]
        · simp) t e i hp
    simpa using this

/-- an event nobody is sending and nobody will be asked to send is never completed -/
theorem quiet_run (ev : Nat) : ∀ (as : List Act) {s : St}, (∀ a, a ∈ as → FanAct a) → (∀ u, FanLoc (s.thr u)) →
    (∀ t i, prog (s.thr t) ≠ some (ev, i)) → ev ∉ sendEvs as →
    (∀ t i, prog ((run s as).thr t) ≠ some (ev, i)) ∧ ∃ S₂, (run s as).sent = s.sent ++ S₂ ∧ ev ∉ S₂
  | [], _, _, _, h, _ => ⟨h, [], by simp, by simp⟩
  | a :: as, s, hfa, hl, h, hne => by
    have ha := hfa a (by simp)
    rw [sendEvs_cons, List.mem_append, not_or] at hne
    obtain ⟨e1, e2⟩ := act_effect a ha hl
    have hq : ∀ t i, prog ((apply s a).thr t) ≠ some (ev, i) := by
      intro t i hp
      rcases e1 t ev i hp with ⟨j, hj⟩ | rfl
      · exact h t j hj
      · exact hne.1 (by simp [sendOf])
    obtain ⟨q1, S₂, q2, q3⟩ := quiet_run ev as (fun b hb => hfa b (by simp [hb])) (frame_apply a ha hl).2 hq hne.2
    refine ⟨q1, ?_⟩
    rcases e2 with e2 | ⟨e, e2, e3⟩
    · exact ⟨S₂, by rw [run_cons, q2, e2], q3⟩
    · refine ⟨e :: S₂, by rw [run_cons, q2, e2]; simp, ?_⟩
      have : e ≠ ev := by
        rintro rfl
        rcases e3 with ⟨t, j, hj⟩ | ⟨u, rfl⟩
        · exact h t j hj
        · exact hne.1 (by simp [sendOf])
      simp [q3, Ne.symm this]

theorem mem_sendEvs_of_mem {as : List Act} {u e : Nat} (h : Act.send u e ∈ as) : e ∈ sendEvs as :=
  List.mem_flatMap.2 ⟨_, h, by simp [sendOf]⟩

/-- distinct events: an event is passed to `.send` by one thread only -/
theorem send_unique : ∀ {as : List Act} {u t e : Nat}, (sendEvs as).Nodup → Act.send u e ∈ as → Act.send t e ∈ as → u = t
  | a :: as, u, t, e, hnd, hu, ht => by
    rw [sendEvs_cons, List.nodup_append] at hnd
    rcases List.mem_cons.1 hu with rfl | hu' <;> rcases List.mem_cons.1 ht with h | ht'
    · cases h; rfl
    · exact absurd rfl (hnd.2.2 e (by simp [sendOf]) e (mem_sendEvs_of_mem ht'))
    · subst h
      exact absurd rfl (hnd.2.2 e (by simp [sendOf]) e (mem_sendEvs_of_mem hu'))
    · exact send_unique hnd.2.1 hu' ht'

/-! ## phases: sequential churn alternating with concurrent fan-out -/

/-- either a sequential history of completed operations (`create`/`drop`/… on thread 0, nobody interleaving) or a
    concurrent execution without `create`/`drop` -/
inductive Phase where
  | churn (h : List Op)
  | fan (as : List Act)

def runPhase (s : St) : Phase → St
  | .churn h => exec s h
  | .fan as => run s as

def runPhases (s : St) (ps : List Phase) : St := ps.foldl runPhase s

/-- a churn phase is a legal history; a fan-out phase contains no `create`/`drop`, its events are pairwise distinct and
    every thread that acted in it is idle at its end (all calls completed and acknowledged) -/
def PhaseOK (s : St) : Phase → Prop
  | .churn h => LegalH s h
  | .fan as => (∀ a, a ∈ as → FanAct a) ∧ (∀ t, t ∈ as.flatMap thrOf → (run s as).thr t = .idle)

def PhasesOK : St → List Phase → Prop
  | _, [] => True
  | s, p :: ps => PhaseOK s p ∧ PhasesOK (runPhase s p) ps

instance (s : St) (p : Phase) : Decidable (PhaseOK s p) := by
  cases p <;> simp only [PhaseOK] <;> infer_instance

instance : (s : St) → (ps : List Phase) → Decidable (PhasesOK s ps)
  | _, [] => isTrue trivial
  | s, p :: ps =>
    have := instDecidablePhasesOK (runPhase s p) ps
    by simp only [PhasesOK]; infer_instance

theorem wf_runPhase {s : St} {p : Phase} (hw : WF s) (h : PhaseOK s p) : WF (runPhase s p) := by
  cases p with
  | churn hs => exact wf_exec hw h
  | fan as => exact wf_fan_idle hw as h.1 h.2

theorem wf_runPhases {s : St} {ps : List Phase} (hw : WF s) (h : PhasesOK s ps) : WF (runPhases s ps) := by
  induction ps generalizing s with
  | nil => exact hw
  | cons p ps ih => exact ih (wf_runPhase hw h.1) h.2

theorem runPhases_eq_run (s : St) (ps : List Phase) : ∃ as, runPhases s ps = run s as := by
  induction ps generalizing s with
  | nil => exact ⟨[], rfl⟩
  | cons p ps ih =>
    obtain ⟨as, h⟩ := ih (runPhase s p)
    cases p with
    | churn hs => exact ⟨hs.flatMap (opActs s.MAX) ++ as, by rw [run_append, ← exec_eq_run]; exact h⟩
    | fan bs => exact ⟨bs ++ as, by rw [run_append]; exact h⟩

end Mutiny.Multi
