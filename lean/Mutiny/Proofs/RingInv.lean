import Mutiny.Model.Ring

/-!
# Inductive invariant of the `Ring` model (M1)

`Inv s` (ONE structure, destructure by field name):

* counters  : `npos : 0 < N`, `hHT : head ≤ tail`, `hTE : tail ≤ enqTail`, `hHD : head ≤ deqHead`,
              `hTN : tail ≤ head + N`
* producers : `pRange pUniq pCover pOk`  (holders of ids are exactly `[tail, enqTail)`, admitted ones `< head + N`)
* consumers : `cRange cUniq cCover cOk`  (holders of ids are exactly `[head, deqHead)`, admitted ones `< tail`)
* data      : `accLen bufOk wrOk relOk delIds delVals`
* registers : `idxOk` (`rPub`/`rCan`: `idx = id % N`, `guess % N = idx`), `chkOk` (`cChkTail h w`: `h ≤ head`,
              `w = false → h < tail`), `recOk` (`pRecede … w`: `w = true`)

## IMPORTANT: `Inv` is *not* an invariant of every `Reachable` state (theorem `cancel_steals`)

The index-based cancel (`rCan`, Rust `try_unleak_slot_index_internal`) re-guesses its sequence number from the lap of
`enqueuer_tail - 1`; while another producer is parked between its `fetch_add` and its recede with an over-claimed id
`≡ idx (mod N)`, the cancel CAS succeeds on *that* id.  Afterwards nobody holds the canceller's id: `tail` can never pass it.
Therefore

* `CanExact s a`  : side condition of one action (only a *successful* `rCan` CAS with `guess ≠ id` violates it);
* `inv_apply`     : `Inv s → CanExact s a → Inv (apply s a)`;
* `RunOk s as`, `inv_run`, `ReachableX n s` (reachable by a run all of whose actions are `CanExact`), `reachable_inv`;
* `reachableX_of_noCancel` : every run without `.canIdx` actions qualifies;
* `canExact_of_allAdmitted`: `CanExact` holds whenever every producer-side holder is already admitted;
* `cancel_steals` : the concrete counterexample (`N = 2`, 3 threads, 12 actions).
-/

namespace Mutiny.Ring

/-! ## projection lemmas -/

@[simp, grind =] theorem thr_setThr (s : St) (t u : Nat) (l : Loc) :
    (setThr s t l).thr u = if u = t then l else s.thr u := rfl
@[simp, grind =] theorem N_setThr (s : St) (t : Nat) (l : Loc) : (setThr s t l).N = s.N := rfl
@[simp, grind =] theorem head_setThr (s : St) (t : Nat) (l : Loc) : (setThr s t l).head = s.head := rfl
@[simp, grind =] theorem tail_setThr (s : St) (t : Nat) (l : Loc) : (setThr s t l).tail = s.tail := rfl
@[simp, grind =] theorem enq_setThr (s : St) (t : Nat) (l : Loc) : (setThr s t l).enqTail = s.enqTail := rfl
@[simp, grind =] theorem deq_setThr (s : St) (t : Nat) (l : Loc) : (setThr s t l).deqHead = s.deqHead := rfl
@[simp, grind =] theorem buf_setThr (s : St) (t : Nat) (l : Loc) : (setThr s t l).buf = s.buf := rfl
@[simp, grind =] theorem acc_setThr (s : St) (t : Nat) (l : Loc) : (setThr s t l).accepted = s.accepted := rfl
@[simp, grind =] theorem del_setThr (s : St) (t : Nat) (l : Loc) : (setThr s t l).delivered = s.delivered := rfl

@[simp, grind =] theorem buf_setBuf (s : St) (i v j : Nat) :
    (setBuf s i v).buf j = if j = i then v else s.buf j := rfl
@[simp, grind =] theorem thr_setBuf (s : St) (i v : Nat) : (setBuf s i v).thr = s.thr := rfl
@[simp, grind =] theorem N_setBuf (s : St) (i v : Nat) : (setBuf s i v).N = s.N := rfl
@[simp, grind =] theorem head_setBuf (s : St) (i v : Nat) : (setBuf s i v).head = s.head := rfl
@[simp, grind =] theorem tail_setBuf (s : St) (i v : Nat) : (setBuf s i v).tail = s.tail := rfl
@[simp, grind =] theorem enq_setBuf (s : St) (i v : Nat) : (setBuf s i v).enqTail = s.enqTail := rfl
@[simp, grind =] theorem deq_setBuf (s : St) (i v : Nat) : (setBuf s i v).deqHead = s.deqHead := rfl
@[simp, grind =] theorem acc_setBuf (s : St) (i v : Nat) : (setBuf s i v).accepted = s.accepted := rfl
@[simp, grind =] theorem del_setBuf (s : St) (i v : Nat) : (setBuf s i v).delivered = s.delivered := rfl

/-! ## who holds which sequence number -/

/-- producer-side holders of sequence number `k` -/
def holdsP : Loc → Nat → Prop
  | .pLoadHead _ id _, k => id = k
  | .pRecede _ id _ _, k => id = k
  | .pWrite _ id _, k => id = k
  | .pPublish _ id _, k => id = k
  | .rHold id, k => id = k
  | .rRet id _, k => id = k
  | .rPub id _ _, k => id = k
  | .rCan id _ _, k => id = k
  | _, _ => False

/-- producer-side holders that were already admitted (`id < head + N` was established) -/
def passedP : Loc → Nat → Prop
  | .pWrite _ id _, k => id = k
  | .pPublish _ id _, k => id = k
  | .rHold id, k => id = k
  | .rRet id _, k => id = k
  | .rPub id _ _, k => id = k
  | .rCan id _ _, k => id = k
  | _, _ => False

/-- consumer-side holders of sequence number `k` -/
def holdsC : Loc → Nat → Prop
  | .cLoadTail id, k => id = k
  | .cRecede id, k => id = k
  | .cRead id, k => id = k
  | .cRelease id _, k => id = k
  | _, _ => False

/-- consumer-side holders that were already admitted (`id < tail` was established) -/
def passedC : Loc → Nat → Prop
  | .cRead id, k => id = k
  | .cRelease id _, k => id = k
  | _, _ => False

theorem passedP_holdsP {l : Loc} {k : Nat} (h : passedP l k) : holdsP l k := by
  cases l <;> simp_all [passedP, holdsP]

theorem passedC_holdsC {l : Loc} {k : Nat} (h : passedC l k) : holdsC l k := by
  cases l <;> simp_all [passedC, holdsC]

/-! ## arithmetic -/

/-- two different sequence numbers inside one window of `N` occupy different slots -/
theorem mod_ne_of_window {a x y N : Nat} (h1 : a ≤ x) (h2 : x < y) (h3 : y < a + N) : x % N ≠ y % N := by
  intro h
  have hy : y = x + (y - x) := by omega
  have hd : (y - x) % N = 0 := by
    have := Nat.sub_mod_eq_zero_of_mod_eq h.symm
    exact this
  have hlt : y - x < N := by omega
  rw [Nat.mod_eq_of_lt hlt] at hd
  omega

theorem mod_ne_of_window' {a x y N : Nat} (h1 : a ≤ x) (h1' : a ≤ y) (hne : x ≠ y) (h3 : x < a + N) (h3' : y < a + N) :
    x % N ≠ y % N := by
  rcases Nat.lt_or_gt_of_ne hne with h | h
  · exact mod_ne_of_window h1 h h3'
  · exact fun e => mod_ne_of_window h1' h h3 e.symm

theorem eq_of_mod_eq_of_window {a x y N : Nat} (h1 : a ≤ x) (h1' : a ≤ y) (h3 : x < a + N) (h3' : y < a + N)
    (e : x % N = y % N) : x = y := by
  by_cases hne : x = y
  · exact hne
  · exact absurd e (mod_ne_of_window' h1 h1' hne h3 h3')

/-! ## the invariant -/

structure Inv (s : St) : Prop where
  npos : 0 < s.N
  hHT : s.head ≤ s.tail
  hTE : s.tail ≤ s.enqTail
  hHD : s.head ≤ s.deqHead
  hTN : s.tail ≤ s.head + s.N
  pRange : ∀ t k, holdsP (s.thr t) k → s.tail ≤ k ∧ k < s.enqTail
  pUniq : ∀ t1 t2 k, holdsP (s.thr t1) k → holdsP (s.thr t2) k → t1 = t2
  pCover : ∀ k, s.tail ≤ k → k < s.enqTail → ∃ t, holdsP (s.thr t) k
  pOk : ∀ t k, passedP (s.thr t) k → k < s.head + s.N
  cRange : ∀ t k, holdsC (s.thr t) k → s.head ≤ k ∧ k < s.deqHead
  cUniq : ∀ t1 t2 k, holdsC (s.thr t1) k → holdsC (s.thr t2) k → t1 = t2
  cCover : ∀ k, s.head ≤ k → k < s.deqHead → ∃ t, holdsC (s.thr t) k
  cOk : ∀ t k, passedC (s.thr t) k → k < s.tail
  accLen : s.accepted.length = s.tail
  bufOk : ∀ k, s.head ≤ k → k < s.tail → s.accepted[k]? = some (s.buf (k % s.N))
  wrOk : ∀ t v id len, s.thr t = .pPublish v id len → s.buf (id % s.N) = v
  relOk : ∀ t id v, s.thr t = .cRelease id v → s.accepted[id]? = some v
  delIds : s.delivered.map (·.2.1) = List.range s.head
  delVals : s.delivered.map (·.2.2) = s.accepted.take s.head
  idxOk : ∀ t id idx g, (s.thr t = .rPub id idx g ∨ s.thr t = .rCan id idx g) → idx = id % s.N ∧ g % s.N = idx
  chkOk : ∀ t h w, s.thr t = .cChkTail h w → h ≤ s.head ∧ (w = false → h < s.tail)
  recOk : ∀ t v id rsv w, s.thr t = .pRecede v id rsv w → w = true
  /-- a producer measuring the length after its publication: its sequence number is below `tail` -/
  lenOk : ∀ t id, s.thr t = .pLen id → id < s.tail

/-- default per-field tactics; `h : Inv s`, `t` the stepping thread -/
macro "ring_fields" h:term:max t:term:max : tactic => `(tactic| (
  have := Inv.npos $h; have := Inv.hHT $h; have := Inv.hTE $h; have := Inv.hHD $h; have := Inv.hTN $h
  have := Inv.accLen $h
  constructor <;> simp only [thr_setThr, N_setThr, head_setThr, tail_setThr, enq_setThr, deq_setThr, buf_setThr,
    acc_setThr, del_setThr, buf_setBuf, thr_setBuf, N_setBuf, head_setBuf, tail_setBuf, enq_setBuf, deq_setBuf,
    acc_setBuf, del_setBuf]
  all_goals (first | omega | exact Inv.npos $h | exact Inv.delIds $h | exact Inv.delVals $h | exact Inv.accLen $h | exact Inv.bufOk $h | skip)
  try (case pRange => intro u k; have := Inv.pRange $h u k; have := Inv.pUniq $h u $t k; grind [holdsP])
  try (case pUniq => intro t1 t2 k; have := Inv.pUniq $h t1 t2 k; have := Inv.pRange $h t1 k; have := Inv.pRange $h t2 k; grind [holdsP])
  try (case pCover => intro k hk1 hk2; refine Exists.elim (Inv.pCover $h k ?_ ?_) (fun u hu => ⟨u, ?_⟩) <;> (first | omega | grind [holdsP]))
  try (case pOk => intro u k; have := Inv.pOk $h u k; grind [passedP])
  try (case cRange => intro u k; have := Inv.cRange $h u k; have := Inv.cUniq $h u $t k; grind [holdsC])
  try (case cUniq => intro t1 t2 k; have := Inv.cUniq $h t1 t2 k; have := Inv.cRange $h t1 k; have := Inv.cRange $h t2 k; grind [holdsC])
  try (case cCover => intro k hk1 hk2; refine Exists.elim (Inv.cCover $h k ?_ ?_) (fun u hu => ⟨u, ?_⟩) <;> (first | omega | grind [holdsC]))
  try (case cOk => intro u k; have := Inv.cOk $h u k; grind [passedC])
  try (case wrOk => intro u v id len; have := Inv.wrOk $h u v id len; grind)
  try (case relOk => intro u id v; have := Inv.relOk $h u id v; grind)
  try (case idxOk => intro u id idx g; have := Inv.idxOk $h u id idx g; grind)
  try (case chkOk => intro u h' w; have := Inv.chkOk $h u h' w; grind)
  try (case recOk => intro u v id rsv w; have := Inv.recOk $h u v id rsv w; grind)
  try (case lenOk => intro u id; have := Inv.lenOk $h u id; grind)))


/-! ## one case per program point -/

set_option maxHeartbeats 1000000


theorem getElem?_snoc_of_some {l : List Nat} {k x y : Nat} (h : l[k]? = some x) : (l ++ [y])[k]? = some x := by
  have hk : k < l.length := by
    rcases List.getElem?_eq_some_iff.mp h with ⟨hk, _⟩; exact hk
  rw [List.getElem?_append_left hk]; exact h

theorem reguess_mod (id lap N : Nat) : (id % N + lap * N) % N = id % N := by
  rw [Nat.add_mul_mod_self_right, Nat.mod_mod]

theorem step_inv_pFetch (s : St) (t v : Nat) (rsv : Bool) (h : Inv s) (ht : s.thr t = .pFetch v rsv) :
    Inv (step s t) := by
  simp only [step, ht]
  ring_fields h t
  · intro k hk1 hk2
    by_cases hk : k = s.enqTail
    · exact ⟨t, by simp [hk, holdsP]⟩
    · obtain ⟨u, hu⟩ := h.pCover k hk1 (by omega)
      exact ⟨u, by grind [holdsP]⟩


theorem step_inv_pLoadHead (s : St) (t v id : Nat) (rsv : Bool) (h : Inv s) (ht : s.thr t = .pLoadHead v id rsv) :
    Inv (step s t) := by
  have me := h.pRange t id (by simp [ht, holdsP])
  simp only [step, ht]
  split
  · split
    · ring_fields h t
    · ring_fields h t
  · ring_fields h t

theorem step_inv_pRecede (s : St) (t v id : Nat) (rsv w : Bool) (h : Inv s) (ht : s.thr t = .pRecede v id rsv w) :
    Inv (step s t) := by
  have me := h.pRange t id (by simp [ht, holdsP])
  simp only [step, ht]
  split
  · ring_fields h t
  · ring_fields h t

theorem step_inv_pWrite (s : St) (t v id len : Nat) (h : Inv s) (ht : s.thr t = .pWrite v id len) :
    Inv (step s t) := by
  have me := h.pRange t id (by simp [ht, holdsP])
  have me2 := h.pOk t id (by simp [ht, passedP])
  simp only [step, ht]
  ring_fields h t
  · intro k hk1 hk2
    have := h.bufOk k hk1 hk2
    have := mod_ne_of_window (a := s.head) (x := k) (y := id) hk1 (by omega) (by omega)
    simp only [this, if_false]; assumption
  · intro u v1 id1 len1 hu
    by_cases hut : u = t
    · subst hut; simp at hu; obtain ⟨rfl, rfl, rfl⟩ := hu; simp
    · simp only [hut, if_false] at hu
      have r1 := h.pRange u id1 (by simp [hu, holdsP])
      have r2 := h.pOk u id1 (by simp [hu, passedP])
      have ne : id1 ≠ id := by
        intro e; subst e
        exact hut (h.pUniq u t id1 (by simp [hu, holdsP]) (by simp [ht, holdsP]))
      have := mod_ne_of_window' (a := s.head) (x := id1) (y := id) (by omega) (by omega) ne r2 me2
      simp only [this, if_false]
      exact h.wrOk u v1 id1 len1 hu

theorem step_inv_pPublish (s : St) (t v id len : Nat) (h : Inv s) (ht : s.thr t = .pPublish v id len) :
    Inv (step s t) := by
  have me := h.pRange t id (by simp [ht, holdsP])
  have me2 := h.pOk t id (by simp [ht, passedP])
  have me3 := h.wrOk t v id len ht
  simp only [step, ht]
  split
  · rename_i he
    ring_fields h t
    · simp [List.length_append]; omega
    · intro k hk1 hk2
      by_cases hk : k = id
      · subst hk
        have : s.accepted.length = k := by omega
        rw [← this, List.getElem?_concat_length, this, me3]
      · exact getElem?_snoc_of_some (h.bufOk k hk1 (by omega))
    · rw [List.take_append_of_le_length (by omega)]; exact h.delVals
  · exact h
theorem step_inv_rPub (s : St) (t id idx g : Nat) (h : Inv s) (ht : s.thr t = .rPub id idx g) :
    Inv (step s t) := by
  have me := h.pRange t id (by simp [ht, holdsP])
  have me2 := h.pOk t id (by simp [ht, passedP])
  have me3 := h.idxOk t id idx g (Or.inl ht)
  simp only [step, ht]
  split
  · rename_i he
    have hg : g = id := by
      have := h.hHT; have := h.hTN
      exact eq_of_mod_eq_of_window (a := s.tail) (N := s.N) (by omega) (by omega) (by omega) (by omega) (by omega)
    subst hg
    ring_fields h t
    · simp [List.length_append]; omega
    · intro k hk1 hk2
      by_cases hk : k = g
      · subst hk
        have : s.accepted.length = k := by omega
        rw [← this, List.getElem?_concat_length, this, me3.1]
      · exact getElem?_snoc_of_some (h.bufOk k hk1 (by omega))
    · rw [List.take_append_of_le_length (by omega)]; exact h.delVals
  · split
    · ring_fields h t
      · intro u id1 idx1 g1 hu
        by_cases hut : u = t
        · subst hut; simp at hu; obtain ⟨rfl, rfl, rfl⟩ := hu
          exact ⟨me3.1, by rw [me3.1]; exact reguess_mod _ _ _⟩
        · simp only [hut, if_false] at hu; exact h.idxOk u id1 idx1 g1 hu
    · ring_fields h t

theorem step_inv_rLen (s : St) (t g : Nat) (h : Inv s) (ht : s.thr t = .rLen g) :
    Inv (step s t) := by
  simp only [step, ht]
  ring_fields h t

theorem step_inv_rCan (s : St) (t id idx g : Nat) (h : Inv s) (ht : s.thr t = .rCan id idx g)
    (hex : s.enqTail = g + 1 → g = id) :
    Inv (step s t) := by
  have me := h.pRange t id (by simp [ht, holdsP])
  have me2 := h.pOk t id (by simp [ht, passedP])
  have me3 := h.idxOk t id idx g (Or.inr ht)
  simp only [step, ht]
  split
  · rename_i he
    have hg := hex he
    subst hg
    ring_fields h t
  · split
    · ring_fields h t
      · intro u id1 idx1 g1 hu
        by_cases hut : u = t
        · subst hut; simp at hu; obtain ⟨rfl, rfl, rfl⟩ := hu
          exact ⟨me3.1, by rw [me3.1]; exact reguess_mod _ _ _⟩
        · simp only [hut, if_false] at hu; exact h.idxOk u id1 idx1 g1 hu
    · ring_fields h t

theorem step_inv_cFetch (s : St) (t : Nat) (h : Inv s) (ht : s.thr t = .cFetch) :
    Inv (step s t) := by
  simp only [step, ht]
  ring_fields h t
  · intro k hk1 hk2
    by_cases hk : k = s.deqHead
    · exact ⟨t, by simp [hk, holdsC]⟩
    · obtain ⟨u, hu⟩ := h.cCover k hk1 (by omega)
      exact ⟨u, by grind [holdsC]⟩

theorem step_inv_cLoadTail (s : St) (t id : Nat) (h : Inv s) (ht : s.thr t = .cLoadTail id) :
    Inv (step s t) := by
  have me := h.cRange t id (by simp [ht, holdsC])
  simp only [step, ht]
  split
  · ring_fields h t
  · ring_fields h t

theorem step_inv_cRecede (s : St) (t id : Nat) (h : Inv s) (ht : s.thr t = .cRecede id) :
    Inv (step s t) := by
  have me := h.cRange t id (by simp [ht, holdsC])
  simp only [step, ht]
  split
  · ring_fields h t
  · ring_fields h t

theorem step_inv_cChkHead (s : St) (t : Nat) (h : Inv s) (ht : s.thr t = .cChkHead) :
    Inv (step s t) := by
  simp only [step, ht]
  ring_fields h t

theorem step_inv_cChkTail (s : St) (t hh : Nat) (w : Bool) (h : Inv s) (ht : s.thr t = .cChkTail hh w) :
    Inv (step s t) := by
  simp only [step, ht]
  split
  · ring_fields h t
  · ring_fields h t

theorem step_inv_cRead (s : St) (t id : Nat) (h : Inv s) (ht : s.thr t = .cRead id) :
    Inv (step s t) := by
  have me := h.cRange t id (by simp [ht, holdsC])
  have me2 := h.cOk t id (by simp [ht, passedC])
  simp only [step, ht]
  ring_fields h t
  · intro u id1 v1 hu
    by_cases hut : u = t
    · subst hut; simp at hu; obtain ⟨rfl, rfl⟩ := hu
      exact h.bufOk _ me.1 me2
    · simp only [hut, if_false] at hu; exact h.relOk u id1 v1 hu

theorem step_inv_cRelease (s : St) (t id v : Nat) (h : Inv s) (ht : s.thr t = .cRelease id v) :
    Inv (step s t) := by
  have me := h.cRange t id (by simp [ht, holdsC])
  have me2 := h.cOk t id (by simp [ht, passedC])
  have me3 := h.relOk t id v ht
  simp only [step, ht]
  split
  · rename_i he
    ring_fields h t
    · intro k hk1 hk2; exact h.bufOk k (by omega) hk2
    · simp [List.map_append, h.delIds, List.range_succ, he]
    · rw [List.take_add_one, me3, List.map_append, h.delVals, he]; rfl
  · exact h

theorem step_inv_lLen (s : St) (t : Nat) (h : Inv s) (ht : s.thr t = .lLen) :
    Inv (step s t) := by
  simp only [step, ht]
  ring_fields h t

theorem step_inv_lLenH (s : St) (t tl : Nat) (h : Inv s) (ht : s.thr t = .lLenH tl) :
    Inv (step s t) := by
  simp only [step, ht]
  ring_fields h t

theorem step_inv_pLen (s : St) (t id : Nat) (h : Inv s) (ht : s.thr t = .pLen id) :
    Inv (step s t) := by
  simp only [step, ht]
  ring_fields h t

/-! ## all of `step`, `apply`, `run` -/

/-- the only transition that does not preserve `Inv`: an index-based cancel whose CAS succeeds on a guess that is not the
    caller's own sequence number (see `cancel_steals`) -/
def CanExact (s : St) (a : Act) : Prop :=
  ∀ t id idx g, a = .step t → s.thr t = .rCan id idx g → s.enqTail = g + 1 → g = id

theorem step_noop (s : St) (t : Nat)
    (h : s.thr t = .idle ∨ (∃ r, s.thr t = .done r) ∨ (∃ id, s.thr t = .rHold id) ∨ (∃ id r, s.thr t = .rRet id r)) :
    step s t = s := by
  rcases h with h | ⟨r, h⟩ | ⟨id, h⟩ | ⟨id, r, h⟩ <;> simp only [step, h]

theorem step_inv (s : St) (t : Nat) (h : Inv s) (hex : CanExact s (.step t)) : Inv (step s t) := by
  cases hl : s.thr t with
  | idle => rw [step_noop s t (Or.inl hl)]; exact h
  | done r => rw [step_noop s t (Or.inr (Or.inl ⟨r, hl⟩))]; exact h
  | rHold id => rw [step_noop s t (Or.inr (Or.inr (Or.inl ⟨id, hl⟩)))]; exact h
  | rRet id r => rw [step_noop s t (Or.inr (Or.inr (Or.inr ⟨id, r, hl⟩)))]; exact h
  | pFetch v rsv => exact step_inv_pFetch s t v rsv h hl
  | pLoadHead v id rsv => exact step_inv_pLoadHead s t v id rsv h hl
  | pRecede v id rsv w => exact step_inv_pRecede s t v id rsv w h hl
  | pWrite v id len => exact step_inv_pWrite s t v id len h hl
  | pPublish v id len => exact step_inv_pPublish s t v id len h hl
  | pLen id => exact step_inv_pLen s t id h hl
  | rPub id idx g => exact step_inv_rPub s t id idx g h hl
  | rLen g => exact step_inv_rLen s t g h hl
  | rCan id idx g => exact step_inv_rCan s t id idx g h hl (hex t id idx g rfl hl)
  | cFetch => exact step_inv_cFetch s t h hl
  | cLoadTail id => exact step_inv_cLoadTail s t id h hl
  | cRecede id => exact step_inv_cRecede s t id h hl
  | cChkHead => exact step_inv_cChkHead s t h hl
  | cChkTail hh w => exact step_inv_cChkTail s t hh w h hl
  | cRead id => exact step_inv_cRead s t id h hl
  | cRelease id v => exact step_inv_cRelease s t id v h hl
  | lLen => exact step_inv_lLen s t h hl
  | lLenH tl => exact step_inv_lLenH s t tl h hl

theorem apply_inv_send (s : St) (t v : Nat) (h : Inv s) : Inv (apply s (.send t v)) := by
  simp only [apply]
  split
  · rename_i ht; ring_fields h t
  · exact h

theorem apply_inv_recv (s : St) (t : Nat) (h : Inv s) : Inv (apply s (.recv t)) := by
  simp only [apply]
  split
  · rename_i ht; ring_fields h t
  · exact h

theorem apply_inv_len (s : St) (t : Nat) (h : Inv s) : Inv (apply s (.len t)) := by
  simp only [apply]
  split
  · rename_i ht; ring_fields h t
  · exact h

theorem apply_inv_reserve (s : St) (t : Nat) (h : Inv s) : Inv (apply s (.reserve t)) := by
  simp only [apply]
  split
  · rename_i ht; ring_fields h t
  · exact h

theorem apply_inv_fill (s : St) (t v : Nat) (h : Inv s) : Inv (apply s (.fill t v)) := by
  simp only [apply]
  split
  · rename_i id ht
    have me := h.pRange t id (by simp [ht, holdsP])
    have me2 := h.pOk t id (by simp [ht, passedP])
    ring_fields h t
    · intro k hk1 hk2
      have := h.bufOk k hk1 hk2
      have := mod_ne_of_window (a := s.head) (x := k) (y := id) hk1 (by omega) (by omega)
      simp only [this, if_false]; assumption
    · intro u v1 id1 len1 hu
      have r1 := h.pRange u id1 (by simp [hu, holdsP])
      have r2 := h.pOk u id1 (by simp [hu, passedP])
      have ne : id1 ≠ id := by
        intro e; subst e
        have := h.pUniq u t id1 (by simp [hu, holdsP]) (by simp [ht, holdsP])
        subst this; simp [ht] at hu
      have := mod_ne_of_window' (a := s.head) (x := id1) (y := id) (by omega) (by omega) ne r2 me2
      simp only [this, if_false]
      exact h.wrOk u v1 id1 len1 hu
  · exact h

theorem apply_inv_pubIdx (s : St) (t : Nat) (h : Inv s) : Inv (apply s (.pubIdx t)) := by
  simp only [apply]
  split
  · rename_i id ht
    have me := h.pRange t id (by simp [ht, holdsP])
    have me2 := h.pOk t id (by simp [ht, passedP])
    ring_fields h t
    · intro u id1 idx1 g1 hu
      by_cases hut : u = t
      · subst hut; simp at hu; obtain ⟨rfl, rfl, rfl⟩ := hu
        exact ⟨rfl, Nat.mod_mod _ _⟩
      · simp only [hut, if_false] at hu; exact h.idxOk u id1 idx1 g1 hu
  · exact h

theorem apply_inv_canIdx (s : St) (t : Nat) (h : Inv s) : Inv (apply s (.canIdx t)) := by
  simp only [apply]
  split
  · rename_i id ht
    have me := h.pRange t id (by simp [ht, holdsP])
    have me2 := h.pOk t id (by simp [ht, passedP])
    ring_fields h t
    · intro u id1 idx1 g1 hu
      by_cases hut : u = t
      · subst hut; simp at hu; obtain ⟨rfl, rfl, rfl⟩ := hu
        exact ⟨rfl, Nat.mod_mod _ _⟩
      · simp only [hut, if_false] at hu; exact h.idxOk u id1 idx1 g1 hu
  · exact h

theorem apply_inv_ack (s : St) (t : Nat) (h : Inv s) : Inv (apply s (.ack t)) := by
  simp only [apply]
  split
  · rename_i r ht; ring_fields h t
  · rename_i id r ht
    have me := h.pRange t id (by simp [ht, holdsP])
    have me2 := h.pOk t id (by simp [ht, passedP])
    ring_fields h t
  · exact h


theorem inv_init (n : Nat) (h : 0 < n) : Inv (init n) := by
  constructor <;> simp [init, holdsP, holdsC, passedP, passedC, h]

theorem inv_apply (s : St) (a : Act) (h : Inv s) (hex : CanExact s a) : Inv (apply s a) := by
  cases a with
  | send t v => exact apply_inv_send s t v h
  | recv t => exact apply_inv_recv s t h
  | len t => exact apply_inv_len s t h
  | reserve t => exact apply_inv_reserve s t h
  | fill t v => exact apply_inv_fill s t v h
  | pubIdx t => exact apply_inv_pubIdx s t h
  | canIdx t => exact apply_inv_canIdx s t h
  | step t => exact step_inv s t h hex
  | ack t => exact apply_inv_ack s t h

/-- every successful index-based cancel CAS along the run hits the caller's own sequence number -/
def RunOk (s : St) : List Act → Prop
  | [] => True
  | a :: as => CanExact s a ∧ RunOk (apply s a) as

@[simp] theorem run_nil (s : St) : run s [] = s := rfl
@[simp] theorem run_cons (s : St) (a : Act) (as : List Act) : run s (a :: as) = run (apply s a) as := rfl
theorem run_append (s : St) (as bs : List Act) : run s (as ++ bs) = run (run s as) bs := by
  simp [run, List.foldl_append]

theorem runOk_append (s : St) (as bs : List Act) : RunOk s (as ++ bs) ↔ RunOk s as ∧ RunOk (run s as) bs := by
  induction as generalizing s with
  | nil => simp [RunOk]
  | cons a as ih => simp [RunOk, ih, and_assoc]

theorem inv_run (s : St) (as : List Act) (h : Inv s) (hok : RunOk s as) : Inv (run s as) := by
  induction as generalizing s with
  | nil => exact h
  | cons a as ih => exact ih (apply s a) (inv_apply s a h hok.1) hok.2

/-- reachable by an execution in which no index-based cancel steals a foreign sequence number -/
def ReachableX (n : Nat) (s : St) : Prop := ∃ as, RunOk (init n) as ∧ s = run (init n) as

theorem ReachableX.reachable {n : Nat} {s : St} (h : ReachableX n s) : Reachable n s := by
  obtain ⟨as, _, e⟩ := h; exact ⟨as, e⟩

theorem reachable_inv {n : Nat} {s : St} (hn : 0 < n) (h : ReachableX n s) : Inv s := by
  obtain ⟨as, hok, rfl⟩ := h
  exact inv_run _ _ (inv_init n hn) hok

theorem ReachableX.init (n : Nat) : ReachableX n (init n) := ⟨[], trivial, rfl⟩

theorem ReachableX.apply {n : Nat} {s : St} (h : ReachableX n s) (a : Act) (hex : CanExact s a) :
    ReachableX n (apply s a) := by
  obtain ⟨as, hok, rfl⟩ := h
  refine ⟨as ++ [a], ?_, ?_⟩
  · rw [runOk_append]; exact ⟨hok, hex, trivial⟩
  · rw [run_append]; rfl

theorem ReachableX.run {n : Nat} {s : St} (h : ReachableX n s) (as : List Act) (hok : RunOk s as) :
    ReachableX n (run s as) := by
  induction as generalizing s with
  | nil => exact h
  | cons a as ih => exact ih (h.apply a hok.1) hok.2

/-! ### cancel-free executions -/

/-- no thread is inside an index-based cancel -/
def NoCan (s : St) : Prop := ∀ t id idx g, s.thr t ≠ .rCan id idx g

/-- the action list never calls the index-based cancel -/
def NoCancel (as : List Act) : Prop := ∀ t, Act.canIdx t ∉ as

theorem canExact_of_noCan {s : St} (h : NoCan s) (a : Act) : CanExact s a :=
  fun t id idx g _ ht _ => absurd ht (h t id idx g)

theorem canExact_of_not_step {s : St} {a : Act} (h : ∀ t, a ≠ .step t) : CanExact s a :=
  fun t _ _ _ e _ _ => absurd e (h t)

theorem step_thr_ne (s : St) (t u : Nat) (h : u ≠ t) : (step s t).thr u = s.thr u := by
  unfold step
  split <;> (repeat' split) <;> simp [h]

theorem noCan_step (s : St) (t : Nat) (h : NoCan s) : NoCan (step s t) := by
  intro u id idx g
  by_cases hut : u = t
  · subst hut
    cases hl : s.thr u <;> simp only [step, hl] <;> (repeat' split) <;>
      first | exact absurd hl (h u _ _ _) | simp_all
  · rw [step_thr_ne s t u hut]; exact h u id idx g

theorem noCan_apply (s : St) (a : Act) (h : NoCan s) (ha : ∀ t, a ≠ .canIdx t) : NoCan (apply s a) := by
  intro u id idx g
  have hu := h u id idx g
  cases a with
  | step t => exact noCan_step s t h u id idx g
  | canIdx t => exact absurd rfl (ha t)
  | _ => simp only [apply] <;> split <;> (try simp only [thr_setThr, thr_setBuf]) <;> (try split) <;> simp_all

theorem runOk_of_noCancel (s : St) (as : List Act) (h : NoCan s) (hc : NoCancel as) : RunOk s as := by
  induction as generalizing s with
  | nil => trivial
  | cons a as ih =>
    refine ⟨canExact_of_noCan h a, ih _ (noCan_apply s a h ?_) ?_⟩
    · intro t e; exact hc t (by simp [e])
    · intro t ht; exact hc t (by simp [ht])

theorem noCan_init (n : Nat) : NoCan (init n) := by intro t id idx g; simp [init]

/-- executions that never call the index-based cancel are covered -/
theorem reachableX_of_noCancel (n : Nat) (as : List Act) (hc : NoCancel as) : ReachableX n (run (init n) as) :=
  ⟨as, runOk_of_noCancel _ _ (noCan_init n) hc, rfl⟩

/-! ### when is the index-based cancel exact? -/

/-- If every producer-side holder is already admitted (no concurrent `send`/`reserve` is between its `fetch_add` and its
    admission/recede — producer-side calls are sequential, the scope of C08), a successful cancel CAS hits the caller's own
    sequence number. -/
theorem canExact_of_allAdmitted (s : St) (a : Act) (h : Inv s)
    (hadm : ∀ u k, holdsP (s.thr u) k → passedP (s.thr u) k) : CanExact s a := by
  intro t id idx g _ ht he
  have me := h.pRange t id (by simp [ht, holdsP])
  have me2 := h.pOk t id (by simp [ht, passedP])
  have me3 := h.idxOk t id idx g (Or.inr ht)
  obtain ⟨u, hu⟩ := h.pCover g (by omega) (by omega)
  have hg := h.pOk u g (hadm u g hu)
  have := h.hHT
  exact eq_of_mod_eq_of_window (a := s.head) (N := s.N) (by omega) (by omega) hg me2 (by omega)

/-! ### the defect: without the side condition the invariant does NOT hold -/

/-- `N = 2`: thread 0 reserves (id 0), thread 1 claims id 1, thread 2 claims id 2 and finds the ring full; thread 0
    cancels by index: its re-guess `0 + lap(enqTail-1)·N = 2 = enqTail - 1` makes the CAS succeed, i.e. it removes the
    claim of thread 2 (still parked before its own recede) instead of its own. -/
def stealRun : List Act :=
  [.reserve 0, .step 0, .step 0, .ack 0, .send 1 7, .step 1, .send 2 8, .step 2, .step 2, .canIdx 0, .step 0, .step 0]

theorem cancel_steals :
    let s := run (init 2) stealRun
    Reachable 2 s ∧ s.thr 0 = .done (.canIdx true) ∧ s.thr 2 = .pRecede 8 2 false true ∧ s.tail = 0 ∧ s.enqTail = 2
      ∧ (∀ t, ¬ holdsP (s.thr t) 0) ∧ ¬ Inv s := by
  intro s
  have h0 : s.thr 0 = .done (.canIdx true) := by decide
  have h2 : s.thr 2 = .pRecede 8 2 false true := by decide
  have ht : s.tail = 0 := by decide
  have he : s.enqTail = 2 := by decide
  refine ⟨⟨stealRun, rfl⟩, h0, h2, ht, he, ?_, ?_⟩
  · intro t
    show ¬ holdsP ((run (init 2) stealRun).thr t) 0
    by_cases e0 : t = 0 <;> by_cases e1 : t = 1 <;> by_cases e2 : t = 2 <;>
      simp [stealRun, run, apply, step, init, setThr, holdsP, *]
  · intro hi
    have := (hi.pRange 2 2 (by simp [h2, holdsP])).2
    omega


end Mutiny.Ring

#print axioms Mutiny.Ring.reachable_inv
#print axioms Mutiny.Ring.cancel_steals
#print axioms Mutiny.Ring.canExact_of_allAdmitted
