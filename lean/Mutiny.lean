import Mutiny.Model.Ring
import Mutiny.Model.LockRing
import Mutiny.Model.Handles
import Mutiny.Proofs.RingInv
import Mutiny.Proofs.RingProps
import Mutiny.Props.C01
import Mutiny.Props.C02
import Mutiny.Props.C16
