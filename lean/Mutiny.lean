import Mutiny.Model.Ring
import Mutiny.Model.LockRing
