import Mutiny.Model.Ring
