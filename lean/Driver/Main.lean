import Driver.Machines
/-!
Replay driver.  Reads the traces the Rust harness recorded while running the *real* code under its deterministic
scheduler and drives the Lean models through the very same schedule, checking at every line that model and code agree:

* `cfg model=<name> k=v …`  — start of a run
* `call <t> <op> <args…>`   — logical thread `t` starts an operation
* `pt <t> <tag> <value>`    — thread `t` performs the access following hook point `<tag>` (register value `<value>`)
* `chk <t> <tag> <value>`   — thread `t` passed hook point `<tag>` (recorded, not a scheduling point): the model must be at the matching place
* `ret <t> <result…>`       — the operation of `t` returned `<result…>`
* `obs <key> <values…>`     — something the harness observed on the implementation (drained content, counters, …)
* anything else (`#…`, `panic …`, `verdict …`) is ignored here (the harness' own oracle deals with it)

Output: one line per run — `run <i> ok steps=<n>` or `run <i> diverge line=<l> <what>`.
-/
open Driver

structure RunState where
  idx     : Nat
  mach    : Option AnyMachine
  steps   : Nat
  bad     : Option String

def finishRun (r : RunState) : IO Unit := do
  match r.mach with
  | none => pure ()
  | some _ =>
    match r.bad with
    | none => IO.println s!"run {r.idx} ok steps={r.steps}"
    | some m => IO.println s!"run {r.idx} diverge {m}"

def parseKVs (toks : List String) : List (String × String) :=
  toks.filterMap fun t => match t.splitOn "=" with
    | [k, v] => some (k, v)
    | _ => none

def handle (r : RunState) (ln : Nat) (toks : List String) : RunState :=
  match r.bad, r.mach with
  | some _, _ => r
  | none, none => r
  | none, some am =>
    match toks with
    | "call" :: t :: op :: args =>
      match am.call t.toNat! op args with
      | some am' => { r with mach := some am' }
      | none => { r with bad := some s!"line={ln} model cannot start `{op}` on thread {t} (state: {am.describe t.toNat!})" }
    | ["pt", t, tag, v] =>
      -- harness-level yield points (`h.*`) are not steps of the code
      if tag.startsWith "h." then r else
      let t := t.toNat!
      match am.foreign t tag v.toNat! with
      | some am' => { r with mach := some am', steps := r.steps + 1 }
      | none =>
      match am.tag t with
      | none => { r with bad := some s!"line={ln} code is at hook `{tag}` value={v} but model thread {t} is not at a program point (state: {am.describe t})" }
      | some (mtag, mv) =>
        if mtag != tag then
          { r with bad := some s!"line={ln} thread {t}: code at hook `{tag}` value={v}, model at `{mtag}` value={mv}" }
        else if am.cmpVal tag && mv != v.toNat! then
          { r with bad := some s!"line={ln} thread {t} hook `{tag}`: code register={v}, model register={mv}" }
        else { r with mach := some (am.step t), steps := r.steps + 1 }
    | ["chk", t, tag, v] =>
      match am.check t.toNat! tag v.toNat! with
      | none => r
      | some why => { r with bad := some s!"line={ln} thread {t} hook `{tag}`: {why}" }
    | "ret" :: t :: res =>
      let t := t.toNat!
      let got := " ".intercalate res
      match am.result t with
      | none => { r with bad := some s!"line={ln} code returned `{got}` on thread {t} but the model's operation is not finished (state: {am.describe t})" }
      | some mres =>
        if mres != got then { r with bad := some s!"line={ln} thread {t}: code returned `{got}`, model returns `{mres}`" }
        else { r with mach := some (am.ack t) }
    | "obs" :: key :: vals =>
      let got := " ".intercalate vals
      match am.observe key with
      | none => r
      | some mv => if mv != got then { r with bad := some s!"line={ln} observation `{key}`: code `{got}`, model `{mv}`" } else r
    | _ => r

partial def loop (h : IO.FS.Stream) (r : RunState) (ln : Nat) : IO Unit := do
  let line ← h.getLine
  if line.isEmpty then
    finishRun r
    return ()
  let toks := (line.trimAscii.toString.splitOn " ").filter (· ≠ "")
  match toks with
  | "cfg" :: kvs =>
    finishRun r
    let kv := parseKVs kvs
    let m := mkMachine kv
    let r' : RunState := { idx := r.idx + 1, mach := m, steps := 0,
                           bad := if m.isNone then some s!"line={ln} unknown model in cfg" else none }
    -- a run with an unknown model still reports (as a divergence)
    let r' := if m.isNone then { r' with mach := none } else r'
    if m.isNone then IO.println s!"run {r'.idx} diverge line={ln} unknown model"
    loop h r' (ln + 1)
  | _ => loop h (handle r ln toks) (ln + 1)

def main : IO Unit := do
  loop (← IO.getStdin) { idx := 0, mach := none, steps := 0, bad := none } 1
