import Mutiny.Model.Ring
def main : IO Unit := IO.println "driver"
