import Mutiny.Model.Ring
import Mutiny.Model.Ring32
import Mutiny.Model.LockRing32
import Mutiny.Model.LockRing
import Mutiny.Model.Handles
import Mutiny.Model.IncAvg
import Mutiny.Model.Stack
import Mutiny.Model.Wake
import Mutiny.Model.Multi
import Mutiny.Model.MmapLog
import Mutiny.Model.Exec
import Mutiny.Model.ZeroCopy
import Mutiny.Model.CancelAllLock
/-! Uniform interface of the executable models for the replay driver. -/
namespace Driver

structure Machine (σ : Type) where
  call     : σ → Nat → String → List String → Option σ
  tag      : σ → Nat → Option (String × Nat)
  step     : σ → Nat → σ
  result   : σ → Nat → Option String
  ack      : σ → Nat → σ
  observe  : σ → String → Option String
  describe : σ → Nat → String
  /-- whether the register value reported at this hook is compared -/
  cmpVal   : String → Bool
  /-- a hook point the harness recorded without yielding there (`chk t tag v`): `some why` = the model is not where the code is -/
  check    : σ → Nat → String → Nat → Option String := fun _ _ _ _ => none
  /-- a yield point of a layer BELOW the model's granularity that the model knows how to absorb (`some s'`), e.g. the steps of the pool's
      free-list ring while a consumer releases a payload handle -/
  foreign  : σ → Nat → String → Nat → Option σ := fun _ _ _ _ => none

structure AnyMachine where
  σ : Type
  m : Machine σ
  s : σ

namespace AnyMachine
def call (a : AnyMachine) (t : Nat) (op : String) (args : List String) : Option AnyMachine :=
  (a.m.call a.s t op args).map fun s' => { a with s := s' }
def tag (a : AnyMachine) (t : Nat) := a.m.tag a.s t
def step (a : AnyMachine) (t : Nat) : AnyMachine := { a with s := a.m.step a.s t }
def result (a : AnyMachine) (t : Nat) := a.m.result a.s t
def ack (a : AnyMachine) (t : Nat) : AnyMachine := { a with s := a.m.ack a.s t }
def observe (a : AnyMachine) (k : String) := a.m.observe a.s k
def describe (a : AnyMachine) (t : Nat) := a.m.describe a.s t
def cmpVal (a : AnyMachine) (tag : String) := a.m.cmpVal tag
def check (a : AnyMachine) (t : Nat) (tag : String) (v : Nat) := a.m.check a.s t tag v
def foreign (a : AnyMachine) (t : Nat) (tag : String) (v : Nat) : Option AnyMachine := (a.m.foreign a.s t tag v).map fun s' => { a with s := s' }
end AnyMachine

def showList (l : List Nat) : String := " ".intercalate (l.map toString)

/-! ### M1 Ring — `origin` (a multiple of `N`): the implementation's counters start there (and wrap at 2^32) -/
structure RingD where
  s : Mutiny.Ring.St
  origin : Nat

open Mutiny in
def ringMachine : Machine RingD where
  call d t op args :=
    let s := d.s
    let idle := s.thr t == .idle
    let upd (s' : Ring.St) : Option RingD := some { d with s := s' }
    match op, args with
    | "send", [v]  => if idle then upd (Ring.apply s (.send t v.toNat!)) else none
    | "recv", []   => if idle then upd (Ring.apply s (.recv t)) else none
    | "len", []    => if idle then upd (Ring.apply s (.len t)) else none
    | "reserve", [] => if idle then upd (Ring.apply s (.reserve t)) else none
    | "fill", [v]  => match s.thr t with
                      | .rHold _ => upd (Ring.apply s (.fill t v.toNat!))
                      | _ => none
    | "pubidx", [] => match s.thr t with
                      | .rHold _ => upd (Ring.apply s (.pubIdx t))
                      | _ => none
    | "canidx", [] => match s.thr t with
                      | .rHold _ => upd (Ring.apply s (.canIdx t))
                      | _ => none
    | _, _ => none
  tag d t := (Ring.tagOf (d.s.thr t)).map fun (tg, v) => (tg, (v + d.origin) % 4294967296)
  step d t := { d with s := Ring.step d.s t }
  result d t := match d.s.thr t with
    | .done r => some r.show
    | .rRet _ r => some r.show
    | _ => none
  ack d t := { d with s := Ring.apply d.s (.ack t) }
  observe d k := match k with
    | "abs" => some (showList (Ring.abs d.s))
    | "len" => some (toString (d.s.tail - d.s.head))
    | _ => none
  describe d t := reprStr (d.s.thr t) ++ s!" head={d.s.head} tail={d.s.tail} enqTail={d.s.enqTail} deqHead={d.s.deqHead} origin={d.origin}"
  cmpVal tag := tag != "am.len" && tag != "am.len.head" && tag != "am.p.fetch" && tag != "am.c.fetch" && tag != "am.c.chkhead"

/-! ### M1/32 Ring32 — the `u32` arithmetic of the source; counters start at the residue `origin`; hook values compared as they are -/
structure Ring32D where
  s : Mutiny.Ring.St
  /-- a checked arithmetic operation of the model overflowed (the checked build of the code panics there) -/
  panicked : Bool

open Mutiny in
def ring32Machine : Machine Ring32D where
  call d t op args :=
    if d.panicked then none else
    let s := d.s
    let idle := s.thr t == .idle
    let upd (a : Ring.Act) : Option Ring32D := (Ring32.apply32 s a).map fun s' => { d with s := s' }
    match op, args with
    | "send", [v]  => if idle then upd (.send t v.toNat!) else none
    | "recv", []   => if idle then upd (.recv t) else none
    | "len", []    => if idle then upd (.len t) else none
    | "reserve", [] => if idle then upd (.reserve t) else none
    | "fill", [v]  => match s.thr t with
                      | .rHold _ => upd (.fill t v.toNat!)
                      | _ => none
    | "pubidx", [] => match s.thr t with
                      | .rHold _ => upd (.pubIdx t)
                      | _ => none
    | "canidx", [] => match s.thr t with
                      | .rHold _ => upd (.canIdx t)
                      | _ => none
    | _, _ => none
  tag d t := if d.panicked then none else Ring.tagOf (d.s.thr t)
  step d t := match Ring32.step32 d.s t with
    | some s' => { d with s := s' }
    | none => { d with panicked := true }
  result d t := if d.panicked then some "panic" else match d.s.thr t with
    | .done r => some r.show
    | .rRet _ r => some r.show
    | _ => none
  ack d t := match Ring32.apply32 d.s (.ack t) with
    | some s' => { d with s := s' }
    | none => d
  observe d k := match k with
    | "abs" => some (showList (Ring.abs { d.s with head := d.s.delivered.length }))
    | "len" => some (toString (Mutiny.U32.len32 d.s.tail d.s.head))
    | _ => none
  describe d t := reprStr (d.s.thr t) ++ s!" head={d.s.head} tail={d.s.tail} enqTail={d.s.enqTail} deqHead={d.s.deqHead} panicked={d.panicked}"
  cmpVal tag := tag != "am.len" && tag != "am.len.head" && tag != "am.p.fetch" && tag != "am.c.fetch" && tag != "am.c.chkhead"

/-! ### M2 LockRing -/
open Mutiny in
def lockRingMachine : Machine LockRing.St where
  call s t op args :=
    let idle := s.thr t == .idle
    match op, args with
    | "send", [v]  => if idle then some (LockRing.apply s (.send t v.toNat!)) else none
    | "recv", []   => if idle then some (LockRing.apply s (.recv t)) else none
    | "len", []    => if idle then some (LockRing.apply s (.len t)) else none
    | _, _ => none
  tag s t := LockRing.tagOf (s.thr t)
  step s t := LockRing.step s t
  result s t := match s.thr t with
    | .done r => some r.show
    | _ => none
  ack s t := LockRing.apply s (.ack t)
  observe s k := match k with
    | "abs" => some (showList (LockRing.abs s))
    | "len" => some (toString (s.tail - s.head))
    | _ => none
  describe s t := reprStr (s.thr t) ++ s!" head={s.head} tail={s.tail} locked={s.locked}"
  cmpVal _ := false

/-! ### M3+M5 Handles -/
open Mutiny in
def handlesMachine : Machine Handles.St where
  call s t op args :=
    let idle := s.thr t == .idle
    let nat (x : String) := x.toNat!
    let chk (a : Handles.Act) (ok : Bool) := if idle && ok then some (Handles.apply s a) else none
    match op, args with
    | "newarc", [v, k]   => chk (.newArc t (nat v) (nat k)) (nat k > 0)
    | "clone", [i]       => chk (.clone t (nat i)) (Handles.usable s (nat i))
    | "increfs", [i, k]  => chk (.incRefs t (nat i) (nat k)) (Handles.usable s (nat i))
    | "rawcopy", [i]     => chk (.rawCopy t (nat i)) (nat i < s.cbs.length && (Handles.getCB s (nat i)).owed > 0)
    | "droparc", [i]     => chk (.dropArc t (nat i)) (Handles.usable s (nat i))
    | "count", [i]       => chk (.count t (nat i)) (Handles.usable s (nat i))
    | "deref", [i]       => chk (.deref t (nat i)) (Handles.usable s (nat i))
    | "newunique", [v]   => chk (.newUnique t (nat v)) true
    | "dropunique", [i]  => chk (.dropUnique t (nat i)) (s.uniques.contains (nat i))
    | "derefunique", [i] => chk (.derefUnique t (nat i)) (s.uniques.contains (nat i))
    | "intoarc", [i]     => chk (.intoArc t (nat i)) (s.uniques.contains (nat i))
    | _, _ => none
  tag s t := Handles.tagOf (s.thr t)
  step s t := Handles.step s t
  result s t := match s.thr t with
    | .done r => some r.show
    | _ => none
  ack s t := Handles.apply s (.ack t)
  observe s k := match k with
    | "free" => some (toString s.free.length)
    | "drops" => some (toString s.dropLog.length)
    | _ => none
  describe s t := reprStr (s.thr t) ++ s!" free={s.free} cbs={reprStr s.cbs}"
  cmpVal tag := tag == "oa.inc"   -- (the slot id reported at `pa.dealloc.*` is checked through the results instead)

/-! ### M2/32 LockRing32 -/
structure LockRing32D where
  s : Mutiny.LockRing.St
  panicked : Bool

open Mutiny in
def lockRing32Machine : Machine LockRing32D where
  call d t op args :=
    if d.panicked then none else
    let idle := d.s.thr t == .idle
    match op, args with
    | "send", [v]  => if idle then some { d with s := LockRing.apply d.s (.send t v.toNat!) } else none
    | "recv", []   => if idle then some { d with s := LockRing.apply d.s (.recv t) } else none
    | "len", []    => if idle then some { d with s := LockRing.apply d.s (.len t) } else none
    | _, _ => none
  tag d t := if d.panicked then none else LockRing.tagOf (d.s.thr t)
  step d t := match LockRing32.step32 d.s t with
    | some s' => { d with s := s' }
    | none => { d with panicked := true }
  result d t := if d.panicked then some "panic" else match d.s.thr t with
    | .done r => some r.show
    | _ => none
  ack d t := { d with s := LockRing.apply d.s (.ack t) }
  observe d k := match k with
    | "abs" => some (showList (d.s.accepted.drop d.s.delivered.length))
    | "len" => some (toString (Mutiny.U32.len32 d.s.tail d.s.head))
    | _ => none
  describe d t := reprStr (d.s.thr t) ++ s!" head={d.s.head} tail={d.s.tail} locked={d.s.locked} panicked={d.panicked}"
  cmpVal _ := false

/-! ### M12a IncAvg — `avgUpd` instantiated with the IEEE single-precision formula of `inc` -/
def avgUpdF32 (c a x : Nat) : Nat :=
  let cf : Float32 := (UInt32.ofNat c).toFloat32
  let af := Float32.ofBits (UInt32.ofNat a)
  let xf := Float32.ofBits (UInt32.ofNat x)
  (((cf / (1.0 + cf)) * af) + (xf / (1.0 + cf))).toBits.toNat

open Mutiny in
def incAvgMachine : Machine IncAvg.St where
  call s t op args :=
    let idle := s.thr t == .idle
    match op, args with
    | "inc", [x] => if idle then some (IncAvg.apply avgUpdF32 s (.inc t x.toNat!)) else none
    | "probe", [] => if idle then some (IncAvg.apply avgUpdF32 s (.probe t)) else none
    | _, _ => none
  tag s t := IncAvg.tagOf (s.thr t)
  step s t := IncAvg.step avgUpdF32 s t
  result s t := match s.thr t with
    | .done r => some r.show
    | _ => none
  ack s t := IncAvg.apply avgUpdF32 s (.ack t)
  observe s k := match k with
    | "count" => some (toString (IncAvg.split s.cell).1)
    | _ => none
  describe s t := reprStr (s.thr t) ++ s!" cell={s.cell}"
  cmpVal tag := tag == "ia.cas"

/-! ### M12b Stack -/
open Mutiny in
def stackMachine : Machine Stack.St where
  call s t op args :=
    let idle := s.thr t == .idle
    match op, args with
    | "push", [v] => if idle then some (Stack.apply s (.push t v.toNat!)) else none
    | "pop", [] => if idle then some (Stack.apply s (.pop t)) else none
    | "plpush", [v] => if idle then some (Stack.apply s (.plPush t v.toNat!)) else none
    | "plpop", [] => if idle then some (Stack.apply s (.plPop t)) else none
    | _, _ => none
  tag s t := Stack.tagOf (s.thr t)
  step s t := Stack.step s t
  result s t := match s.thr t with
    | .done r => some r.show
    | _ => none
  ack s t := Stack.apply s (.ack t)
  observe s k := match k with
    | "len" => some (toString s.items.length)
    | _ => none
  describe s t := reprStr (s.thr t) ++ s!" flag={s.flag} items={s.items}"
  cmpVal _ := false

/-! ### M8 Wake — producers are threads `< 100`, the task of stream `j` is thread `100 + j` -/
structure WakeD where
  s : Mutiny.Wake.St
  /-- streams whose task is inside a poll -/
  polling : List Nat
  /-- `gran=mid`: the publication CAS (`am.p.publish`) and the length measurement (`am.p.len`) of the two-phase ring are yield
      points of the recorded run; otherwise the driver performs them right at the call -/
  mid : Bool := false
  /-- `mid` granularity, pooled channels: how many slot ids were published to the pool's FREE-LIST ring so far (it starts full: `N`); a
      deallocation's publication CAS (hook `am.p.publish` with the claimed sequence number) succeeds exactly when the two are equal -/
  ftail : Nat := 0

/-- the channel's queue is the two-phase ring `AtomicMove` -/
def wakeTwoPhase (r : Mutiny.Wake.Rule) : Bool := r.twoPhase

/-- at coarse granularity a call runs through its publication and its length measurement at once -/
def wakeThrough (d : WakeD) (t : Nat) : WakeD :=
  if d.mid then d else { d with s := Mutiny.Wake.stepP (Mutiny.Wake.stepP d.s t) t }

open Mutiny in
def wakeMachine : Machine WakeD where
  call d t op args :=
    let s := d.s
    let idle := s.thr t == .idle
    let nat (x : String) := x.toNat!
    match op, args with
    | "send", [v]     =>
        if !idle then none
        else if wakeTwoPhase s.rule then some (wakeThrough { d with s := Wake.apply s (.claim t (nat v)) } t)
        else some { d with s := Wake.apply s (.send t (nat v)) }
    | "sendwith", [v] =>
        if !idle then none
        else if wakeTwoPhase s.rule then some (wakeThrough { d with s := Wake.apply s (.claim t (nat v)) } t)
        else some { d with s := Wake.apply s (.sendWith t (nat v)) }
    | "sendrsv", [v]  =>
        -- the Multi ogre_arc channels publish a reserved slot through the ordinary fan-out (their own wake rule)
        if idle then some { d with s := Wake.apply s (if s.rule == .m1 || s.rule == .m2 then .send t (nat v) else .sendRsv t (nat v)) } else none
    | "asyncmov", [v] => if idle then some { d with s := Wake.apply s (.asyncMov t (nat v)) } else none
    | "asynczc", [v]  => if idle then some { d with s := Wake.apply s (.asyncZc t (nat v)) } else none
    | "resume", []    => match s.thr t with
                         | .aSusp _ _ =>
                             if s.rule == .atomic then
                               -- the setter completed: publication (in claim order) and length measurement follow
                               if d.mid then some { d with s := Wake.apply s (.resume t) }
                               else match s.resv with
                                    | (t', _) :: _ => if t' == t then some (wakeThrough { d with s := Wake.apply s (.resume t) } t) else none
                                    | [] => none
                             else match s.resv with
                                  | (t', _) :: _ => if t' == t then some { d with s := Wake.apply s (.resume t) } else none
                                  | [] => none
                         | .zSusp _ =>
                             if wakeTwoPhase s.rule then some (wakeThrough { d with s := Wake.apply s (.resume t) } t)
                             else some { d with s := Wake.apply s (.resume t) }
                         | _ => none
    | "cancel", [j]   => if idle && nat j < s.k then some { d with s := Wake.apply s (.cancel t (nat j)) } else none
    | "release", []   =>
        if !s.zc then some d
        -- at `mid` granularity the slot is free again when the free list's publication has happened (`foreign` below)
        else if d.mid && wakeTwoPhase s.rule then some d
        else if s.held > 0 then some { d with s := Wake.apply s .release } else none
    | "drop", [j]     =>
        let j := nat j
        if t == 100 + j && j < s.k && s.sloc j == .ended && !d.polling.contains j then some { d with s := Wake.apply s (.dropS j), polling := j :: d.polling } else none
    | "poll", [j, tk] =>
        let j := nat j
        if t != 100 + j || j >= s.k || d.polling.contains j then none else
        match s.sloc j with
        | .ready => if nat tk == s.tok j then some { d with s := Wake.apply s (.poll j none), polling := j :: d.polling } else none
        | .parked => some { d with s := Wake.apply s (.poll j (if nat tk == s.tok j then none else some (nat tk))), polling := j :: d.polling }
        | _ => none
    | _, _ => none
  tag d t := if t ≥ 100 then Wake.tagOfS (t - 100) (d.s.sloc (t - 100)) else Wake.tagOfP (d.s.thr t)
  step d t := if t ≥ 100 then { d with s := Wake.stepS d.s (t - 100) } else { d with s := Wake.stepP d.s t }
  result d t :=
    if t ≥ 100 then
      let j := t - 100
      if !d.polling.contains j then none else
      match d.s.sloc j with
      | .ready => match (d.s.delivered.filter (·.1 == j)).getLast? with
                  | some (_, v) => some s!"item {v}"
                  | none => none
      | .parked => some "pending"
      | .ended => some "end"
      | .dropped => some "dropped"
      | _ => none
    else match d.s.thr t with
      | .done r => some r.show
      | .aSusp _ _ => some "susp"
      | .zSusp _ => some "susp"
      | _ => none
  ack d t :=
    if t ≥ 100 then { d with polling := d.polling.erase (t - 100) }
    else { d with s := Wake.apply d.s (.ack t) }
  observe d k := match k with
    | "pending" => some (toString d.s.q.length)
    | _ => none
  describe d t :=
    if t ≥ 100 then reprStr (d.s.sloc (t - 100)) ++ s!" q={d.s.q} waker={reprStr (d.s.waker (t - 100))} tok={d.s.tok (t - 100)}"
    else reprStr (d.s.thr t) ++ s!" q={d.s.q} resv={d.s.resv} held={d.s.held}"
  cmpVal tag := tag != "sync.spin"
  -- a consumer thread releasing a payload handle of a pooled channel: `free_list.publish_movable(id)` -- its publication CAS (may
  -- spin behind another release) and its length measurement; the slot counts as free once the publication has happened
  foreign d t tag v :=
    -- (whichever thread drops the last handle of a pooled payload performs the deallocation: a consumer releasing it, the producer
    --  dropping its own OgreArc after the fan-out, the finalizer; it is the model's own publication only while the thread is at `pClm`/`pSmp`)
    let own := if t ≥ 100 then false else match Mutiny.Wake.tagOfP (d.s.thr t) with
      | some (mt, _) => mt == "am.p.publish" || mt == "am.p.len"
      | none => false
    if d.mid && d.s.zc && wakeTwoPhase d.s.rule && !own then
      -- (thread 90 is the harness's finalizer: after the modelled part of the run it drains the channel itself and drops what it finds)
      if t == 90 then (if tag == "am.p.publish" then some { d with ftail := if v == d.ftail then d.ftail + 1 else d.ftail }
                       else if tag == "am.p.len" then some d else none) else
      if tag == "am.p.publish" then
        -- in claim order: the CAS that follows this hook succeeds iff the free list's `tail` is the claimed number; the slot is
        -- allocatable again from that instant
        if v == d.ftail then (if d.s.held > 0 then some { d with s := Mutiny.Wake.apply d.s .release, ftail := d.ftail + 1 } else none)
        else some d
      else if tag == "am.p.len" then some d
      else none
    else none

/-! ### M6+M7 Multi -/
open Mutiny in
def multiMachine : Machine Multi.St where
  call s t op args :=
    let idle := s.thr t == .idle
    let nat (x : String) := x.toNat!
    match op, args with
    | "create", []   => if idle then some (Multi.apply s (.create t)) else none
    | "drop", [id]   => if idle && s.live.contains (nat id) then some (Multi.apply s (.drop t (nat id))) else none
    | "send", [ev]   => if idle then some (Multi.apply s (.send t (nat ev))) else none
    | "poll", [id]   => if idle then some (Multi.apply s (.poll t (nat id))) else none
    | "release", [ev] => if s.flavor == .ogreArc && s.refs (nat ev) == 0 then none else some (Multi.apply s (.release (nat ev)))
    | "cancel", [id]  => some (Multi.apply s (.cancel (nat id)))
    | _, _ => none
  tag s t := match Multi.tagOf s.MAX (s.thr t) with
    | some ("mc.fan.read", v) => if s.flavor == .arc && v == s.MAX then some ("mc.fan.read", 4294967295) else some ("mc.fan.read", v)
    | x => x
  step s t := Multi.step s t
  result s t := match s.thr t with
    | .done r => some r.show
    | _ => none
  ack s t := Multi.apply s (.ack t)
  observe s k := match k with
    | "count" => some (toString s.count)
    | "used" => some (showList (s.used.filter (· != s.MAX)))
    | "leaked" => some (showList (s.sent.filter (fun e => s.refs e != 0)))
    | _ => none
  describe s t := reprStr (s.thr t) ++ s!" used={s.used} vacant={s.vacant} count={s.count} slock={s.slock}"
  cmpVal tag := tag != "sync.spin" && tag != "sm.sync.lock" && tag != "sm.sync.peek" && tag != "sm.create.count" && tag != "sm.create.vacant" && tag != "sm.running"
  -- `oa.inc` (ogre_arc `increment_references(count)`): right after the count was read, before the first entry is visited
  check s t tag v := if tag != "oa.inc" then none else
    match s.thr t with
    | .fOgre _ 0 cnt => if cnt == v then none else some s!"the code raises the reference counter by {v}, the model by {cnt}"
    | .done .unit => if v == 0 then none else some s!"the code raises the reference counter by {v} after the fan-out loop; the model does it before visiting the first listener"
    | l => some s!"the code raises the reference counter (by {v}) while the model's send is at {reprStr l}: in the model this happens right after the listener count was read, before any copy is handed out"

/-! ### M9 MmapLog -/
open Mutiny in
def mmapMachine : Machine MmapLog.St where
  call s t op args :=
    let idle := s.thr t == .idle
    match op, args with
    | "send", [v]    => if idle then some (MmapLog.apply s (.send t v.toNat!)) else none
    | "subnew", []   => if idle then some (MmapLog.apply s (.subNew t)) else none
    | "subsplit", [] => if idle then some (MmapLog.apply s (.subSplit t)) else none
    | "subjoined", [] => if idle then some (MmapLog.apply s (.subJoined t)) else none
    | "poll", [i]    => if idle && i.toNat! < s.subs.length then some (MmapLog.apply s (.poll t i.toNat!)) else none
    | _, _ => none
  tag s t := MmapLog.tagOf (s.thr t)
  step s t := MmapLog.step s t
  result s t := match s.thr t with
    | .done r => some r.show
    | _ => none
  ack s t := MmapLog.apply s (.ack t)
  observe s k := match k with
    | "log" => some (showList (s.log.map (·.2)))
    | _ => none
  describe s t := reprStr (s.thr t) ++ s!" pubTail={s.pubTail} consTail={s.consTail} subs={reprStr s.subs}"
  cmpVal tag := tag != "mm.p.fetch" && tag != "mm.s.load" && tag != "mm.c.fetch"

/-! ### M10+M11 Exec — history level: every observed event must be a step of the event machine -/
structure ExecD where
  cfg : Mutiny.Exec.Cfg
  s : Mutiny.Exec.St
  counts : Option Mutiny.Exec.Counts

open Mutiny in
def execMachine : Machine ExecD where
  call d _ op args :=
    let evStep (e : Exec.Ev) : Option ExecD := (Exec.stepEv d.cfg d.s e).map fun s' => { d with s := s' }
    match op, args with
    | "accepted", [i] => evStep (.accepted i.toNat!)
    | "yielded", [i]  => evStep (.yielded i.toNat!)
    | "finished", [i] => evStep (.finished i.toNat!)
    | "closecalled", [] => evStep .closeCalled
    | "closereturned", [] => evStep .closeReturned
    | "closereturned", ["true"] => evStep .closeReturned
    -- an unbounded close never answers false: no transition
    | "closereturned", ["false"] => none
    | "boundedclosecalled", [] => evStep .closeCalled
    | "boundedclosereturned", ["true"] => evStep .closeReturned
    | "boundedclosereturned", ["false"] => evStep .closeExpired
    | "cancelall", [] => evStep .cancelAll
    | "callback", [] => evStep .callback
    -- the error handler of a failed item completed: part of that item's processing, no transition of its own
    | "handled", [] => some d
    | "account", [v, to, letters] =>
        let variant := match v with
          | "futfallible" => Exec.Variant.futFallible
          | "fut" => .fut
          | "fallible" => .fallible
          | _ => .plain
        let items := (if letters == "-" then [] else letters.toList).map fun c =>
          -- 'z' = an item failing fast with an error of its own whose type is tokio's `Elapsed`: an error like any other
          if c == 'o' then Exec.Outcome.ok else if c == 'e' || c == 'z' then .err else if c == 's' then .slow else .slowErr
        some { d with counts := some (Exec.account variant (to == "1") items) }
    | _, _ => none
  tag _ _ := none
  step d _ := d
  result _ _ := none
  ack d _ := d
  observe d k := match k, d.counts with
    | "counts", some c => some s!"{c.ok} {c.failed} {c.timedOut} {c.onErr}"
    | "onerr", some c => some s!"{c.onErr}"
    | _, _ => none
  describe d _ := reprStr d.s
  cmpVal _ := false

/-! ### M4 ZeroCopy (non-blocking atomic queue: pool free list + ring of ids) -/
open Mutiny in
def zeroCopyMachine : Machine ZeroCopy.St where
  call s t op args :=
    let idle := s.thr t == .idle
    match op, args with
    | "enq", [v] => if idle then some (ZeroCopy.apply s (.enqueue t v.toNat!)) else none
    | "deq", []  => if idle then some (ZeroCopy.apply s (.dequeue t)) else none
    | "len", []  => if idle then some (ZeroCopy.apply s (.len t)) else none
    | _, _ => none
  tag s t := ZeroCopy.tagOf s t
  step s t := ZeroCopy.step s t
  result s t := match s.thr t with
    | .done r => some r.show
    | _ => none
  ack s t := ZeroCopy.apply s (.ack t)
  observe s k := match k with
    | "abs" => some (showList (ZeroCopy.abs s))
    | _ => none
  describe s t := reprStr (s.thr t) ++ s!" free: {reprStr (s.free.thr t)} h={s.free.head} t={s.free.tail} e={s.free.enqTail} d={s.free.deqHead}; q: {reprStr (s.q.thr t)} h={s.q.head} t={s.q.tail} e={s.q.enqTail} d={s.q.deqHead}"
  cmpVal tag := tag != "am.len" && tag != "am.len.head" && tag != "am.p.fetch" && tag != "am.c.fetch" && tag != "am.c.chkhead"

/-! ### `cancel_all_streams()` under `streams_lock` (model CancelAllLock = M6/M7 bookkeeping + the walker) -/
structure CancelD where
  s : Mutiny.CancelAllLock.St
  /-- the logical thread running `cancel_all_streams()` -/
  walker : Option Nat
  /-- which stream id a polling thread is polling -/
  pollId : List (Nat × Nat)
  /-- what the keep-running flag of its stream read when the polling thread passed `sm.flag` (the wake protocol is model M8's: its
      hooks are absorbed here, only the flag value decides between `pending` and `end`) -/
  flagSeen : List (Nat × Bool)

def wakeProtocolTag (tag : String) : Bool :=
  tag == "sm.flag" || tag == "sm.reg.cmp" || tag == "sm.reg.lock" || tag == "sm.reg.store" || tag == "sm.reg.selfwake" ||
  tag == "sm.wake" || tag == "sm.wake.lock" || tag == "sm.wake.retry"

/-- At this scenario's granularity the wake-up calls inside the fan-out loop are yield points, so other threads run between the publication
    into listener `i`'s queue and the read of entry `i + 1`.  The code reads the entry when it ARRIVES at its `mc.fan.read` hook, i.e. right after
    the access of the last wake-protocol step it performed; model M7 reads it in the publication step (the same instant at the granularity of
    its own scenarios).  The glue therefore re-reads the register from the model's own list after every absorbed step of that thread. -/
def rereadArc (m : Mutiny.Multi.St) (t : Nat) : Mutiny.Multi.Loc :=
  match m.thr t with
  | .fArc ev i _ => .fArc ev i (m.used.getD i m.MAX)
  | l => l

open Mutiny in
def cancelTag (d : CancelD) (t : Nat) : Option (String × Nat) :=
  if d.walker == some t then
    match d.s.w with
    | .lock => some ("sm.cancelall.lock", 0)
    | .spin => some ("sync.spin", 0)
    | .read _ => some ("sm.cancelall.read", 0)
    | .cancel _ id => some ("sm.cancel", id)
    | .unlock => some ("sm.cancelall.unlock", 0)
    | _ => none
  else match Multi.tagOf d.s.m.MAX (d.s.m.thr t) with
    | some ("mc.fan.read", v) => if d.s.m.flavor == .arc && v == d.s.m.MAX then some ("mc.fan.read", 4294967295) else some ("mc.fan.read", v)
    | x => x

open Mutiny in
def cancelAllMachine : Machine CancelD where
  call d t op args :=
    let m := d.s.m
    let idle := m.thr t == .idle
    let nat (x : String) := x.toNat!
    let mul (a : Multi.Act) : Option CancelD := some { d with s := CancelAllLock.apply d.s (.multi a) }
    match op, args with
    | "cancelall", [] => if d.s.w == .idle then some { d with s := CancelAllLock.apply d.s .cancelAll, walker := some t } else none
    | "create", []   => if idle then mul (.create t) else none
    | "drop", [id]   => if idle && m.live.contains (nat id) then mul (.drop t (nat id)) else none
    | "send", [ev]   => if idle then mul (.send t (nat ev)) else none
    | "poll", [id]   => if idle then
        some { d with s := CancelAllLock.apply d.s (.multi (.poll t (nat id))), pollId := (t, nat id) :: d.pollId.filter (·.1 != t),
                      flagSeen := d.flagSeen.filter (·.1 != t) } else none
    | _, _ => none
  tag d t := cancelTag d t
  step d t := if d.walker == some t then { d with s := CancelAllLock.apply d.s .wstep }
              else { d with s := CancelAllLock.apply d.s (.multi (.step t)) }
  result d t :=
    if d.walker == some t then (if d.s.w == .done then some "unit" else none) else
    match d.s.m.thr t with
    | .done (.item none) => match d.flagSeen.find? (·.1 == t) with
        | some (_, false) => some "end"
        | _ => some "pending"
    | .done r => some r.show
    | _ => none
  ack d t := if d.walker == some t then d else { d with s := CancelAllLock.apply d.s (.multi (.ack t)) }
  observe d k := match k with
    | "cancelled" => some (showList d.s.cancelled)
    | "used" => some (showList (d.s.m.used.filter (· != d.s.m.MAX)))
    | _ => none
  describe d t := (if d.walker == some t then reprStr d.s.w else reprStr (d.s.m.thr t)) ++ s!" used={d.s.m.used} vacant={d.s.m.vacant} slock={d.s.m.slock} cancelled={d.s.cancelled}"
  cmpVal tag := tag != "sync.spin" && tag != "sm.sync.lock" && tag != "sm.sync.peek" && tag != "sm.create.count" && tag != "sm.create.vacant" && tag != "sm.running" &&
                tag != "sm.cancelall.lock" && tag != "sm.cancelall.read" && tag != "sm.cancelall.unlock"
  -- the poll / park / wake protocol (model M8) is below this model: its yield points are absorbed; `sm.flag` records what the flag read
  foreign d t tag v :=
    if tag == "sm.flag" then
      some { d with flagSeen := (t, d.s.m.keep v) :: d.flagSeen.filter (·.1 != t) }
    else
    let reread : CancelD := { d with s := { d.s with m := Multi.setThr d.s.m t (rereadArc d.s.m t) } }
    if wakeProtocolTag tag then some reread
    else if tag == "sync.spin" then
      -- a spin on `wakers_lock` (inside the wake protocol): the model's thread is not at a lock of its own
      match cancelTag d t with
      | some ("sync.spin", _) => none
      | some ("sm.sync.lock", _) => none
      | some ("sm.cancelall.lock", _) => none
      | _ => some reread
    else none

def lookup (kv : List (String × String)) (k : String) : Option String :=
  (kv.find? (·.1 == k)).map (·.2)

def mkMachine (kv : List (String × String)) : Option AnyMachine :=
  let n := ((lookup kv "N").getD "0").toNat!
  match lookup kv "model" with
  | some "ring" => some { σ := _, m := ringMachine, s := { s := Mutiny.Ring.init n, origin := ((lookup kv "origin").getD "0").toNat! } }
  | some "ring32" => some { σ := _, m := ring32Machine, s := { s := Mutiny.Ring32.init32 n (((lookup kv "origin").getD "0").toNat!), panicked := false } }
  | some "lockring32" => some { σ := _, m := lockRing32Machine, s := { s := Mutiny.LockRing32.init32 n (((lookup kv "origin").getD "0").toNat!), panicked := false } }
  | some "lockring" => some { σ := _, m := lockRingMachine, s := Mutiny.LockRing.init n }
  | some "incavg" => some { σ := _, m := incAvgMachine, s := Mutiny.IncAvg.init }
  | some "stack" => some { σ := _, m := stackMachine, s := Mutiny.Stack.init n }
  | some "zerocopy" => some { σ := _, m := zeroCopyMachine, s := Mutiny.ZeroCopy.init n }
  | some "exec" =>
      some { σ := _, m := execMachine, s := { cfg := { futures := (lookup kv "futures") == some "1", limit := ((lookup kv "limit").getD "1").toNat! }, s := {}, counts := none } }
  | some "mmaplog" => some { σ := _, m := mmapMachine, s := Mutiny.MmapLog.init }
  | some "multi" =>
      let mx := ((lookup kv "MAX").getD "1").toNat!
      let fl := if lookup kv "flavor" == some "ogre" then Mutiny.Multi.Flavor.ogreArc else .arc
      some { σ := _, m := multiMachine, s := Mutiny.Multi.init mx 8 fl ((lookup kv "drains") == some "1") }
  | some "cancelall" =>
      let mx := ((lookup kv "MAX").getD "4").toNat!
      let k := ((lookup kv "k").getD "0").toNat!
      let fl := if lookup kv "flavor" == some "ogre" then Mutiny.Multi.Flavor.ogreArc else .arc
      -- `k` listeners created one after the other before the run starts
      let createOne (m : Mutiny.Multi.St) : Mutiny.Multi.St :=
        let m1 := Mutiny.Multi.apply m (.create 0)
        let m2 := (List.range (mx + 6)).foldl (fun x _ => Mutiny.Multi.step x 0) m1
        Mutiny.Multi.apply m2 (.ack 0)
      let m0 := (List.range k).foldl (fun x _ => createOne x) (Mutiny.Multi.init mx 8 fl ((lookup kv "drains").getD "1" == "1"))
      some { σ := _, m := cancelAllMachine, s := { s := Mutiny.CancelAllLock.mk m0, walker := none, pollId := [], flagSeen := [] } }
  | some "wake" =>
      let mx := ((lookup kv "MAX").getD "1").toNat!
      let k := ((lookup kv "k").getD "1").toNat!
      let rule := match lookup kv "rule" with
        | some "atomic" => Mutiny.Wake.Rule.atomic
        | some "cb" => .cb
        | some "mcb" => .cb
        | some "m2" => .m2
        | some "m1" => .m1
        | _ => .fs
      some { σ := _, m := wakeMachine, s := { s := Mutiny.Wake.init n mx k rule ((lookup kv "zc") == some "1"), polling := [],
                                              mid := (lookup kv "gran") == some "mid", ftail := n } }
  | some "handles" => some { σ := _, m := handlesMachine, s := Mutiny.Handles.init n }
  | _ => none

end Driver
