import Driver.Machines
