#!/bin/bash
# tools/seedconfirm.sh <worktree> <patch>  -- confirms a seeded change: builds (with and without the feature), runs the pinned suite with the
# change, runs the demonstration with the change (must fail) and without it (must pass); leaves the change applied; removes the build output.
WT=$1; PATCH=$2
cd "$WT" || exit 2
export CARGO_TARGET_DIR=$WT/target CARGO_NET_OFFLINE=true
git checkout -q -- src; git apply "$PATCH" || { echo "patch does not apply"; exit 2; }
DEMO=$(ls tests/ | grep -v "^api.rs$\|^use_cases.rs$" | head -1); DEMO=${DEMO%.rs}
echo "demo=$DEMO"
cargo build --offline 2>&1 | tail -1
cargo build --offline --features verif 2>&1 | tail -1
echo "--- suite with the change"
cargo test --offline --no-fail-fast --lib --test api --test use_cases 2>&1 | grep -E "^test result|FAILED|failed" | head -12
echo "--- demo with the change (expected to fail)"
timeout 600 cargo test --offline --features verif --test $DEMO 2>&1 | grep -E "^test |test result|panicked" | cut -c1-250 | head -12
git checkout -q -- src
echo "--- demo without the change (expected to pass)"
timeout 600 cargo test --offline --features verif --test $DEMO 2>&1 | grep -E "^test |test result|panicked" | cut -c1-250 | head -12
git apply "$PATCH"
rm -rf "$WT/target"
