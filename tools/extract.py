#!/usr/bin/env python3
"""Translator for the two model ingredients that are *generated* from /repo's current source on every run
(DESIGN.md section 2.5):

 G1  field declaration (= drop) order of the channel structs that own an allocator together with containers of handles
     into it  ->  lean/Mutiny/Generated/DropOrder.lean
 G2  inventory of the `vp!` hook tags per source file, in source order  ->  lean/Mutiny/Generated/Tags.lean
 G4  the counter arithmetic of the two ring buffers, per function, as operator kinds in source order
     ->  lean/Mutiny/Generated/RingOps.lean   (Props/C15_Ops.lean)
 G3  the wake decision of every send path of every channel (guard chain -> wake target), as terms of a tiny expression
     language  ->  lean/Mutiny/Generated/WakeRules.lean   (Props/C04_Rules.lean proves, for all MAX_STREAMS and lengths,
     that each generated chain computes the wake rule of model M8 the C04 theorem is about)

Deliberately tiny: struct bodies are located by `pub struct <Name>` ... matching brace, fields by `name: Type,` lines.
"""
import re, os, sys
REPO = os.environ.get("VERIF_REPO", "/repo")
OUT = os.path.join(os.path.dirname(os.path.dirname(os.path.abspath(__file__))), "lean", "Mutiny", "Generated")

STRUCTS = [
    ("multiOgreArcAtomic",   "src/multi/channels/ogre_arc/atomic.rs",    "Atomic"),
    ("multiOgreArcFullSync", "src/multi/channels/ogre_arc/full_sync.rs", "FullSync"),
    ("uniZeroCopyAtomic",    "src/uni/channels/zero_copy/atomic.rs",     "Atomic"),
    ("uniZeroCopyFullSync",  "src/uni/channels/zero_copy/full_sync.rs",  "FullSync"),
    ("atomicZeroCopy",       "src/ogre_std/ogre_queues/atomic/atomic_zero_copy.rs", "AtomicZeroCopy"),
    ("fullSyncZeroCopy",     "src/ogre_std/ogre_queues/full_sync/full_sync_zero_copy.rs", "FullSyncZeroCopy"),
]

def struct_fields(path, name):
    src = open(os.path.join(REPO, path)).read()
    m = re.search(r"pub struct\s+" + re.escape(name) + r"\b", src)
    if not m: raise SystemExit(f"extract.py: struct {name} not found in {path}")
    i = src.index("{", m.end())
    # the generic parameter list may contain `{`? (const generics defaults do not here); find the body by brace matching
    depth, j = 0, i
    while True:
        c = src[j]
        if c == "{": depth += 1
        elif c == "}":
            depth -= 1
            if depth == 0: break
        j += 1
    body = src[i + 1:j]
    body = re.sub(r"//[^\n]*", "", body)
    fields = []
    for fm in re.finditer(r"(?:pub(?:\([^)]*\))?\s+)?([a-z_][a-z0-9_]*)\s*:\s*([^,\n]+(?:<[^\n]*>)?[^,\n]*),?", body):
        fields.append((fm.group(1), fm.group(2).strip()))
    return fields

def classify(fname, ftype):
    """role of a field in the teardown model"""
    if "PhantomData" in ftype: return "other"
    if fname == "allocator": return "allocator"
    if re.search(r"\bOgreArc\s*<|\bOgreUnique\s*<", ftype): return "handles"
    return "other"


# ---------------------------------------------------------------------------------------------------------------- G3
WAKE_FILES = [
    ("uniMovableAtomic",    "src/uni/channels/movable/atomic.rs"),
    ("uniMovableFullSync",  "src/uni/channels/movable/full_sync.rs"),
    ("uniMovableCrossbeam", "src/uni/channels/movable/crossbeam.rs"),
    ("uniZeroCopyAtomic",   "src/uni/channels/zero_copy/atomic.rs"),
    ("uniZeroCopyFullSync", "src/uni/channels/zero_copy/full_sync.rs"),
    ("multiArcAtomic",      "src/multi/channels/arc/atomic.rs"),
    ("multiArcFullSync",    "src/multi/channels/arc/full_sync.rs"),
    ("multiArcCrossbeam",   "src/multi/channels/arc/crossbeam.rs"),
    ("multiOgreArcAtomic",  "src/multi/channels/ogre_arc/atomic.rs"),
    ("multiOgreArcFullSync","src/multi/channels/ogre_arc/full_sync.rs"),
    ("multiMmapLog",        "src/multi/channels/reference/mmap_log.rs"),
]

def strip_comments(src):
    return re.sub(r"//[^\n]*", "", src)

def lean_str(x):
    return '"' + x.replace("\\", "\\\\").replace('"', '\\"') + '"'

def parse_var(t):
    t = t.strip().replace(".get()", "")
    if re.fullmatch(r"len_after\w*", t): return ".lenAfter"
    if re.fullmatch(r"len_before\w*", t): return ".lenBefore"
    return None

def parse_expr(t):
    t = re.sub(r"\s+", " ", t.strip())
    if t == "MAX_STREAMS as u32": return "(.max 0)"
    m = re.fullmatch(r"(\d+) \+ MAX_STREAMS as u32", t) or re.fullmatch(r"MAX_STREAMS as u32 \+ (\d+)", t)
    if m: return f"(.max {m.group(1)})"
    if re.fullmatch(r"\d+", t): return f"(.const {t})"
    return None

def parse_guard(text):
    text = re.sub(r"\s+", " ", text.strip())
    m = re.fullmatch(r"([\w.()]+) (<=|<|==) (.+)", text)
    if m:
        v, e = parse_var(m.group(1)), parse_expr(m.group(3))
        if v and e: return f"(.{ {'<=': 'le', '<': 'lt', '==': 'eq'}[m.group(2)] } {v} {e})"
    if re.fullmatch(r"\*?stream_id != u32::MAX", text): return ".notSentinel"
    return f"(.other {lean_str(text)})"

def parse_target(text):
    text = re.sub(r"\s+", "", text.strip())
    m = re.fullmatch(r"(len_\w+?)(?:-(\d+))?", text)
    if m and parse_var(m.group(1)): return f"(.varMinus {parse_var(m.group(1))} {m.group(2) or 0})"
    if re.fullmatch(r"\d+", text): return f"(.const {text})"
    if text in ("*stream_id", "stream_id"): return ".streamId"
    return f"(.other {lean_str(text)})"

def wake_sites(path):
    """[(fn name, [chain, ...])], chain = [(guard, target), ...] (an `else if` continues the chain of the site before it)"""
    src = strip_comments(open(os.path.join(REPO, path)).read())
    fns = [(m.start(), m.group(1)) for m in re.finditer(r"\bfn\s+(\w+)", src)]
    out = {}
    order = []
    for m in re.finditer(r"wake_stream\(([^)]*)\)", src):
        fn = [n for (p, n) in fns if p < m.start()][-1]
        head = src[:m.start()]
        # the controlling condition: the closest `if COND {` / `else if COND {` / match-arm guard `x if COND => {` whose block is
        # still open at the call site
        depth, i, guard, is_else = 0, len(head) - 1, None, False
        while i >= 0:
            c = head[i]
            if c == "}": depth += 1
            elif c == "{":
                if depth > 0: depth -= 1
                else:
                    pre = head[max(0, i - 240):i]
                    mm = re.search(r"(else\s+)?if\s+([^{};]+?)\s*$", pre)
                    ma = re.search(r"\b\w+\s+if\s+([^{};=]+?(?:<=|==|<)[^{};=]+?)\s*=>\s*$", pre)
                    if ma: guard, is_else = ma.group(1), False
                    elif mm and not re.search(r"\bif\s+let\b", mm.group(0)): guard, is_else = mm.group(2), bool(mm.group(1))
                    else: guard = None
                    break
            i -= 1
        site = (parse_guard(guard) if guard else ".always", parse_target(m.group(1)))
        if fn not in out: out[fn] = []; order.append(fn)
        if is_else and out[fn]: out[fn][-1].append(site)
        else: out[fn].append([site])
    return [(fn, out[fn]) for fn in order]

def gen_wake_rules():
    lines = ["import Mutiny.Model.WakeRuleLang",
             "/-! GENERATED by tools/extract.py (G3) from /repo's current source on every run -- do not edit.",
             "    One definition per send path that calls `wake_stream`: its guard chains, in source order. -/",
             "namespace Mutiny.Generated", "open Mutiny.WakeRuleLang", ""]
    names = []
    for (cname, path) in WAKE_FILES:
        for fn, chains in wake_sites(path):
            name = f"{cname}_{fn}"
            names.append(name)
            body = ", ".join("[" + ", ".join(f"({g}, {t})" for g, t in ch) + "]" for ch in chains)
            lines.append(f"/-- `{fn}` in `{path}` -/")
            lines.append(f"def {name} : List Chain := [{body}]")
            lines.append("")
    lines.append("def wakeSites : List (String × List Chain) := [" + ", ".join(f'("{n}", {n})' for n in names) + "]")
    lines.append("")
    lines.append("end Mutiny.Generated")
    new = "\n".join(lines) + "\n"
    p = os.path.join(OUT, "WakeRules.lean")
    if not os.path.exists(p) or open(p).read() != new: open(p, "w").write(new)


# ---------------------------------------------------------------------------------------------------------------- G4
# the counter arithmetic of the two rings, per function, as a sequence of operator kinds in source order
#   -> lean/Mutiny/Generated/RingOps.lean   (Props/C15_Ops.lean: each sequence equals the operations the u32 machines
#      `Ring32` / `LockRing32` perform at the corresponding program points)
RING_FILES = [
    ("atomicMove", "src/ogre_std/ogre_queues/atomic/atomic_move.rs",
     ["leak_slot_internal", "try_publish_leaked_internal", "try_publish_leaked_internal_index", "try_unleak_slot_internal",
      "try_unleak_slot_index_internal", "consume_leaking_internal", "release_leaked_internal", "len_after_publishing",
      "available_elements_count"]),
    ("fullSyncMove", "src/ogre_std/ogre_queues/full_sync/full_sync_move.rs",
     ["leak_slot_internal", "publish_leaked_internal", "unleak_internal", "consume_leaking_internal",
      "release_leaked_internal", "available_elements_count"]),
]
OP_PATTERNS = [
    (r"\.fetch_add\s*\(", "fetchAdd"), (r"\.fetch_sub\s*\(", "fetchSub"), (r"\.compare_exchange(?:_weak)?\s*\(", "cas"),
    (r"\.overflowing_sub\s*\(", "wsub"), (r"\.wrapping_sub\s*\(", "wsub"), (r"\.overflowing_add\s*\(", "wadd"), (r"\.wrapping_add\s*\(", "wadd"),
    (r"\.saturating_sub\s*\(", "ssub"), (r"\.saturating_add\s*\(", "sadd"), (r"\.checked_(?:sub|add|mul)\s*\(", "checked"),
    (r"\bas\s+i32\b", "asI32"), (r"\b[iu]32::max\s*\(", "max"), (r"\b[iu]32::min\s*\(", "min"),
    (r"(?<=[\w\)\]])\s\+=\s", "caddAssign"), (r"(?<=[\w\)\]])\s-=\s", "csubAssign"),
    (r"(?<=[\w\)\]])\s\+\s(?=[\w\(])", "cadd"), (r"(?<=[\w\)\]])\s-\s(?=[\w\(])", "csub"), (r"(?<=[\w\)\]])\s\*\s(?=[\w\(])", "cmul"),
    (r"(?<=[\w\)\]])\s/\s(?=[\w\(])", "div"), (r"(?<=[\w\)\]])\s%\s(?=[\w\(])", "mod"),
    (r"(?<=[\w\)\]])\+1\b", "cadd"), (r"(?<=[\w\)\]])-1\b", "csub"),
]

def fn_body(src, name):
    m = re.search(r"\bfn\s+" + re.escape(name) + r"\b", src)
    if not m: return None
    i = src.index("{", m.end())
    # skip a `where` clause / return type containing braces? (none here); brace matching
    depth, j = 0, i
    while True:
        c = src[j]
        if c == "{": depth += 1
        elif c == "}":
            depth -= 1
            if depth == 0: break
        j += 1
    return src[i + 1:j]

def ring_ops(body):
    body = strip_comments(body)
    body = re.sub(r'vp!\([^;]*\);', "", body)
    body = re.sub(r'"[^"\n]*"', '""', body)
    body = re.sub(r"<\s*[A-Za-z_][\w:]*(?:\s*,\s*[\w:]+)*\s*>", "", body)          # turbofish / generic arguments
    body = re.sub(r"&\s*(?:mut\s*)?\*", "&", body)                                  # `&mut * ptr`, `&* ptr`: dereferences, not products
    body = re.sub(r"([{(=])\s*\*\s*", r"\1 DEREF", body)                           # `{ * self.tail.get() }`, `= *x`
    found = []
    for pat, kind in OP_PATTERNS:
        for m in re.finditer(pat, body):
            found.append((m.start(), kind))
    found.sort()
    return [k for _, k in found]

def gen_ring_ops():
    lines = ["/-! GENERATED by tools/extract.py from /repo's current source on every run -- do not edit.",
             "The counter arithmetic of the two ring buffers: per function, the operator kinds in source order",
             "(`wsub`/`wadd` = overflowing_/wrapping_ sub/add, `cadd`/`csub`/`cmul` = plain `+` `-` `*` (checked in a build with overflow",
             "checks), `asI32` = `as i32`, `max`, `div`, `mod`, `fetchAdd`, `cas`, `ssub`/`sadd` = saturating, `checked` = checked_*). -/",
             "namespace Mutiny.Generated", ""]
    names = []
    for (prefix, path, fns) in RING_FILES:
        src = open(os.path.join(REPO, path)).read()
        for fn in fns:
            body = fn_body(src, fn)
            ops = ring_ops(body) if body is not None else ["<function not found>"]
            nm = f"{prefix}_{fn}"
            names.append(nm)
            lines.append(f"/-- `{fn}` in `{path}` -/")
            lines.append(f"def {nm} : List String := [" + ", ".join(lean_str(o) for o in ops) + "]")
            lines.append("")
    lines.append("def ringOps : List (String × List String) := [" + ", ".join(f'("{n}", {n})' for n in names) + "]")
    lines.append("")
    lines.append("end Mutiny.Generated")
    new = "\n".join(lines) + "\n"
    p = os.path.join(OUT, "RingOps.lean")
    if not os.path.exists(p) or open(p).read() != new: open(p, "w").write(new)


# ---------------------------------------------------------------------------------------------------------------- G5
# the per-item decision of the stream executors (property C11): for every `spawn_*executor` function and each of its `item_processor`
# closures, the tree of `match` arms and instrument guards is walked and every leaf is emitted as
#   (outcome path, cheap_profiling?, effects)   -- effects: which event counter is fed, how the error callback is invoked
# plus the arms of `match concurrency_limit` (which combinator gets which limit).  -> lean/Mutiny/Generated/ExecTable.lean
EXEC_FILE = "src/stream_executor.rs"
EXEC_FNS = ["spawn_executor", "spawn_futures_executor", "spawn_fallibles_executor", "spawn_non_futures_executor",
            "spawn_non_futures_non_fallibles_executor"]
OUTCOME_PATS = ["Ok(yielded_item)", "Err(err)", "Err(_time_out_err)", "Ok(non_timed_out_result)"]

def match_brace(src, i, open_c="{", close_c="}"):
    """index of the brace closing the one at src[i]"""
    depth = 0
    j = i
    while j < len(src):
        c = src[j]
        if c == '"':                                   # skip string literals (log messages contain braces)
            j += 1
            while src[j] != '"':
                if src[j] == "\\": j += 1
                j += 1
        elif c == open_c: depth += 1
        elif c == close_c:
            depth -= 1
            if depth == 0: return j
        j += 1
    raise SystemExit("extract.py (G5): unbalanced braces")

def macro_effects(src):
    """macro name -> (guard predicate, counter) from the `on_*_item!` macro definitions"""
    out = {}
    for m in re.finditer(r"macro_rules!\s+(on_(?:non_)?timed_(?:ok|err)_item)\s*\{", src):
        body = src[m.end():match_brace(src, m.end() - 1)]
        g = re.search(r"if\s+\$INSTRUMENTS\.(\w+)\(\)\s*\{\s*\$self\.(\w+?)_events_avg_future_duration\.inc\(", body)
        if not g: raise SystemExit(f"extract.py (G5): macro {m.group(1)}: no guarded counter update found")
        out[m.group(1)] = (g.group(1), g.group(2))
    return out

def leaves(text, macros, path, guards):
    """walks a block of the item processor; yields (path, guards, effects) for every way through it"""
    # sequential composition: effects of the straight-line part + one alternative of every branching construct, in order
    results = [([], dict(guards))]          # (effects so far, guards so far)
    i = 0
    def add_effect(e):
        for r in results: r[0].append(e)
    while i < len(text):
        m = re.compile(r"\bmatch\b|\bif\b|on_(?:non_)?timed_(?:ok|err)_item!|(\w+)_events_avg_future_duration\.inc\(|on_err_callback\w*\s*\(").search(text, i)
        if not m: break
        tok = m.group(0)
        if tok == "match":
            b = text.index("{", m.end())
            e = match_brace(text, b)
            arms = split_arms(text[b + 1:e])
            new = []
            for eff, g in results:
                for pat, body in arms:
                    sub = leaves(body, macros, path + ([pat] if pat in OUTCOME_PATS else []), g)
                    for (p2, g2, e2) in sub: new.append((eff + e2, g2, p2))
            # paths: carried separately
            return finish(new, text[e + 1:], macros)
        elif tok == "if":
            c = re.match(r"\s*(?:Self::INSTRUMENTS|\$INSTRUMENTS)\.(\w+)\(\)\s*\{", text[m.end():])
            if not c:
                i = m.end(); continue
            b = m.end() + c.end() - 1
            e = match_brace(text, b)
            then_t = text[b + 1:e]
            rest = text[e + 1:]
            else_t = ""
            em = re.match(r"\s*else\s*(if\b[^{]*)?\{", rest)
            after = rest
            if em:
                if em.group(1):                          # `else if <cond> { … }`: treated as an else block containing that `if`
                    eb = e + 1 + em.end() - 1
                    ee = match_brace(text, eb)
                    else_t = em.group(1) + text[eb:ee + 1]
                    after = text[ee + 1:]
                else:
                    eb = e + 1 + em.end() - 1
                    ee = match_brace(text, eb)
                    else_t = text[eb + 1:ee]
                    after = text[ee + 1:]
            pred = c.group(1)
            new = []
            for eff, g in results:
                for val, blk in ((True, then_t), (False, else_t)):
                    if pred in g and g[pred] != val: continue
                    g2 = dict(g); g2[pred] = val
                    for (p2, g3, e2) in leaves(blk, macros, path, g2): new.append((eff + e2, g3, p2))
            return finish(new, after, macros)
        elif tok.startswith("on_") and tok.endswith("!"):
            name = tok[:-1]
            pred, counter = macros[name]
            # the macro feeds its counter only under its own guard
            new = []
            for eff, g in results:
                if g.get(pred, None) is False: new.append((eff, g))
                elif g.get(pred, None) is True: new.append((eff + [counter], g))
                else:
                    g1 = dict(g); g1[pred] = True; new.append((eff + [counter], g1))
                    g0 = dict(g); g0[pred] = False; new.append((eff, g0))
            results = new
            b = text.index("(", m.end() - 1) if text[m.end() - 1] != "(" else m.end() - 1
            i = match_brace(text, text.index("(", m.end()), "(", ")") + 1
        elif "_events_avg_future_duration.inc(" in tok:
            add_effect(m.group(1))
            i = m.end()
        else:   # the error callback
            call_end = match_brace(text, m.end() - 1, "(", ")")
            tail = text[call_end + 1:call_end + 8]
            before = text[max(0, m.start() - 14):m.start()]
            how = "onErr.await" if tail.lstrip().startswith(".await") else ("onErr.spawned" if "spawn(" in before else "onErr.sync")
            add_effect(how)
            i = call_end + 1
    return [(path, g, eff) for eff, g in results]

def finish(partial, rest, macros):
    """continues every partial result (effects, guards, path) through the text that follows the branching construct"""
    out = []
    for eff, g, p in partial:
        for (p2, g2, e2) in leaves(rest, macros, p, g): out.append((p2, g2, eff + e2))
    return out

def split_arms(body):
    """`pat => expr,` arms of a match body (top level only)"""
    arms = []
    i = 0
    while True:
        m = re.compile(r"\s*([^=\n]+?)\s*=>\s*").match(body, i)
        if not m: break
        pat = m.group(1).strip()
        j = m.end()
        if j < len(body) and body[j] == "{":
            e = match_brace(body, j)
            arms.append((pat, body[j + 1:e]))
            i = e + 1
        else:
            # expression arm: up to the top-level comma / end
            depth = 0; k = j
            while k < len(body):
                c = body[k]
                if c in "({[": depth += 1
                elif c in ")}]": depth -= 1
                elif c == "," and depth == 0: break
                k += 1
            arms.append((pat, body[j:k]))
            i = k
        while i < len(body) and body[i] in ", \n\t": i += 1
    return arms

def gen_exec_table():
    src = strip_comments(open(os.path.join(REPO, EXEC_FILE)).read())
    macros = macro_effects(src)
    lines = ["/-! GENERATED by tools/extract.py (G5) from /repo's current `src/stream_executor.rs` on every run -- do not edit.",
             "",
             "Per executor function and per `item_processor` closure (in source order: for the two functions that `match self.futures_timeout`, the",
             "first closure is the `Duration::ZERO` arm, the second the timeout arm): every way through the closure as",
             "`(outcome path, cheap_profiling, effects)` -- outcome path = the `Ok(..)` / `Err(..)` match arms taken, effects = the event counters fed (`ok`,",
             "`failed`, `timed_out`) and how the error callback is invoked -- and the arms of `match concurrency_limit`. -/",
             "namespace Mutiny.Generated.ExecTable", ""]
    for fn in EXEC_FNS:
        m = re.search(r"pub fn\s+" + fn + r"\s*<", src)
        if not m: raise SystemExit(f"extract.py (G5): function {fn} not found")
        b = src.index("{", src.index(")", match_brace(src, src.index("(", m.end()), "(", ")")))
        body = src[b + 1:match_brace(src, b)]
        procs = []
        for pm in re.finditer(r"let\s+item_processor\s*=\s*", body):
            # up to the `;` at depth 0
            depth = 0; k = pm.end()
            while k < len(body):
                c = body[k]
                if c == '"':
                    k += 1
                    while body[k] != '"':
                        if body[k] == "\\": k += 1
                        k += 1
                elif c in "({[": depth += 1
                elif c in ")}]": depth -= 1
                elif c == ";" and depth == 0: break
                k += 1
            procs.append(body[pm.end():k])
        if not procs: raise SystemExit(f"extract.py (G5): {fn}: no item_processor closure found")
        for n, ptxt in enumerate(procs):
            rows = set()
            for (path, g, eff) in leaves(ptxt, macros, [], {}):
                cp = g.get("cheap_profiling", None)
                for v in ([cp] if cp is not None else [True, False]):
                    rows.add((">".join(path), v, tuple(eff)))
            rows = sorted(rows)
            lines.append(f"def {fn}_{n} : List (String × Bool × List String) := [")
            lines.append(",\n".join(f'  ("{p}", {"true" if v else "false"}, [' + ", ".join(f'"{e}"' for e in eff) + "])" for p, v, eff in rows))
            lines.append("]")
            lines.append("")
        lims = []
        for lm in re.finditer(r"match\s+concurrency_limit\s*\{", body):
            for pat, arm in split_arms(body[lm.end():match_brace(body, lm.end() - 1)]):
                c = re.search(r"stream\.(for_each(?:_concurrent)?)\(\s*([^,|)]*?)\s*(?:,|\||\))", arm)
                lims.append(f"{pat}:{c.group(1)}({c.group(2).strip() if c.group(1) == 'for_each_concurrent' else ''})" if c else f"{pat}:?")
        lines.append(f"def {fn}_limit : List String := [" + ", ".join(f'"{x}"' for x in lims) + "]")
        lines.append(f"def {fn}_closures : Nat := {len(procs)}")
        lines.append("")
    lines.append("end Mutiny.Generated.ExecTable")
    new = "\n".join(lines) + "\n"
    p = os.path.join(OUT, "ExecTable.lean")
    if not os.path.exists(p) or open(p).read() != new: open(p, "w").write(new)

def main():
    os.makedirs(OUT, exist_ok=True)
    lines = ["import Mutiny.Model.Teardown",
             "/-! GENERATED by tools/extract.py from /repo's current source on every run -- do not edit. -/",
             "namespace Mutiny.Generated", "open Mutiny.Teardown", ""]
    names = []
    for (lname, path, sname) in STRUCTS:
        fs = struct_fields(path, sname)
        roles = [(f, classify(f, t)) for (f, t) in fs]
        names.append(lname)
        lines.append(f"/-- `{sname}` in `{path}`: fields in declaration (= drop) order -/")
        lines.append(f"def {lname} : List (String × Role) := [" + ", ".join(f'("{f}", .{r})' for f, r in roles) + "]")
        lines.append("")
    lines.append("def allStructs : List (String × List (String × Role)) := [" + ", ".join(f'("{n}", {n})' for n in names) + "]")
    lines.append("")
    lines.append("end Mutiny.Generated")
    new = "\n".join(lines) + "\n"
    p = os.path.join(OUT, "DropOrder.lean")
    if not os.path.exists(p) or open(p).read() != new: open(p, "w").write(new)
    # G2: hook inventory
    tags = []
    for root, _, files in os.walk(os.path.join(REPO, "src")):
        for fn in sorted(files):
            if not fn.endswith(".rs"): continue
            rel = os.path.relpath(os.path.join(root, fn), REPO)
            for m in re.finditer(r'vp!\("([^"]+)"', open(os.path.join(root, fn)).read()):
                tags.append((rel, m.group(1)))
    tags.sort()
    tl = ["/-! GENERATED by tools/extract.py: every `vp!` hook tag of the current source, per file, in source order. -/",
          "namespace Mutiny.Generated", "",
          "def hookTags : List (String × String) := ["]
    tl.append(",\n".join(f'  ("{f}", "{t}")' for f, t in tags))
    tl.append("]\n\nend Mutiny.Generated")
    new = "\n".join(tl) + "\n"
    p = os.path.join(OUT, "Tags.lean")
    if not os.path.exists(p) or open(p).read() != new: open(p, "w").write(new)

if __name__ == "__main__":
    main()
    gen_wake_rules()
    gen_ring_ops()
    gen_exec_table()
