#!/usr/bin/env python3
"""Translator for the two model ingredients that are *generated* from /repo's current source on every run
(DESIGN.md section 2.5):

 G1  field declaration (= drop) order of the channel structs that own an allocator together with containers of handles
     into it  ->  lean/Mutiny/Generated/DropOrder.lean
 G2  inventory of the `vp!` hook tags per source file, in source order  ->  lean/Mutiny/Generated/Tags.lean
 G4  the counter arithmetic of the two ring buffers, per function, as operator kinds in source order
     ->  lean/Mutiny/Generated/RingOps.lean   (Props/C15_Ops.lean)
 G3  the wake decision of every send path of every channel (guard chain -> wake target), as terms of a tiny expression
     language  ->  lean/Mutiny/Generated/WakeRules.lean   (Props/C04_Rules.lean proves, for all MAX_STREAMS and lengths,
     that each generated chain computes the wake rule of model M8 the C04 theorem is about)

Deliberately tiny: struct bodies are located by `pub struct <Name>` ... matching brace, fields by `name: Type,` lines.
"""
import re, os, sys
REPO = os.environ.get("VERIF_REPO", "/repo")
OUT = os.path.join(os.path.dirname(os.path.dirname(os.path.abspath(__file__))), "lean", "Mutiny", "Generated")

STRUCTS = [
    ("multiOgreArcAtomic",   "src/multi/channels/ogre_arc/atomic.rs",    "Atomic"),
    ("multiOgreArcFullSync", "src/multi/channels/ogre_arc/full_sync.rs", "FullSync"),
    ("uniZeroCopyAtomic",    "src/uni/channels/zero_copy/atomic.rs",     "Atomic"),
    ("uniZeroCopyFullSync",  "src/uni/channels/zero_copy/full_sync.rs",  "FullSync"),
    ("atomicZeroCopy",       "src/ogre_std/ogre_queues/atomic/atomic_zero_copy.rs", "AtomicZeroCopy"),
    ("fullSyncZeroCopy",     "src/ogre_std/ogre_queues/full_sync/full_sync_zero_copy.rs", "FullSyncZeroCopy"),
]

def struct_fields(path, name):
    src = open(os.path.join(REPO, path)).read()
    m = re.search(r"pub struct\s+" + re.escape(name) + r"\b", src)
    if not m: raise SystemExit(f"extract.py: struct {name} not found in {path}")
    i = src.index("{", m.end())
    # the generic parameter list may contain `{`? (const generics defaults do not here); find the body by brace matching
    depth, j = 0, i
    while True:
        c = src[j]
        if c == "{": depth += 1
        elif c == "}":
            depth -= 1
            if depth == 0: break
        j += 1
    body = src[i + 1:j]
    body = re.sub(r"//[^\n]*", "", body)
    fields = []
    for fm in re.finditer(r"(?:pub(?:\([^)]*\))?\s+)?([a-z_][a-z0-9_]*)\s*:\s*([^,\n]+(?:<[^\n]*>)?[^,\n]*),?", body):
        fields.append((fm.group(1), fm.group(2).strip()))
    return fields

def classify(fname, ftype):
    """role of a field in the teardown model"""
    if "PhantomData" in ftype: return "other"
    if fname == "allocator": return "allocator"
    if re.search(r"\bOgreArc\s*<|\bOgreUnique\s*<", ftype): return "handles"
    return "other"


# ---------------------------------------------------------------------------------------------------------------- G3
WAKE_FILES = [
    ("uniMovableAtomic",    "src/uni/channels/movable/atomic.rs"),
    ("uniMovableFullSync",  "src/uni/channels/movable/full_sync.rs"),
    ("uniMovableCrossbeam", "src/uni/channels/movable/crossbeam.rs"),
    ("uniZeroCopyAtomic",   "src/uni/channels/zero_copy/atomic.rs"),
    ("uniZeroCopyFullSync", "src/uni/channels/zero_copy/full_sync.rs"),
    ("multiArcAtomic",      "src/multi/channels/arc/atomic.rs"),
    ("multiArcFullSync",    "src/multi/channels/arc/full_sync.rs"),
    ("multiArcCrossbeam",   "src/multi/channels/arc/crossbeam.rs"),
    ("multiOgreArcAtomic",  "src/multi/channels/ogre_arc/atomic.rs"),
    ("multiOgreArcFullSync","src/multi/channels/ogre_arc/full_sync.rs"),
    ("multiMmapLog",        "src/multi/channels/reference/mmap_log.rs"),
]

def strip_comments(src):
    return re.sub(r"//[^\n]*", "", src)

def lean_str(x):
    return '"' + x.replace("\\", "\\\\").replace('"', '\\"') + '"'

def parse_var(t):
    t = t.strip().replace(".get()", "")
    if re.fullmatch(r"len_after\w*", t): return ".lenAfter"
    if re.fullmatch(r"len_before\w*", t): return ".lenBefore"
    return None

def parse_expr(t):
    t = re.sub(r"\s+", " ", t.strip())
    if t == "MAX_STREAMS as u32": return "(.max 0)"
    m = re.fullmatch(r"(\d+) \+ MAX_STREAMS as u32", t) or re.fullmatch(r"MAX_STREAMS as u32 \+ (\d+)", t)
    if m: return f"(.max {m.group(1)})"
    if re.fullmatch(r"\d+", t): return f"(.const {t})"
    return None

def parse_guard(text):
    text = re.sub(r"\s+", " ", text.strip())
    m = re.fullmatch(r"([\w.()]+) (<=|<|==) (.+)", text)
    if m:
        v, e = parse_var(m.group(1)), parse_expr(m.group(3))
        if v and e: return f"(.{ {'<=': 'le', '<': 'lt', '==': 'eq'}[m.group(2)] } {v} {e})"
    if re.fullmatch(r"\*?stream_id != u32::MAX", text): return ".notSentinel"
    return f"(.other {lean_str(text)})"

def parse_target(text):
    text = re.sub(r"\s+", "", text.strip())
    m = re.fullmatch(r"(len_\w+?)(?:-(\d+))?", text)
    if m and parse_var(m.group(1)): return f"(.varMinus {parse_var(m.group(1))} {m.group(2) or 0})"
    if re.fullmatch(r"\d+", text): return f"(.const {text})"
    if text in ("*stream_id", "stream_id"): return ".streamId"
    return f"(.other {lean_str(text)})"

def wake_sites(path):
    """[(fn name, [chain, ...])], chain = [(guard, target), ...] (an `else if` continues the chain of the site before it)"""
    src = strip_comments(open(os.path.join(REPO, path)).read())
    fns = [(m.start(), m.group(1)) for m in re.finditer(r"\bfn\s+(\w+)", src)]
    out = {}
    order = []
    for m in re.finditer(r"wake_stream\(([^)]*)\)", src):
        fn = [n for (p, n) in fns if p < m.start()][-1]
        head = src[:m.start()]
        # the controlling condition: the closest `if COND {` / `else if COND {` / match-arm guard `x if COND => {` whose block is
        # still open at the call site
        depth, i, guard, is_else = 0, len(head) - 1, None, False
        while i >= 0:
            c = head[i]
            if c == "}": depth += 1
            elif c == "{":
                if depth > 0: depth -= 1
                else:
                    pre = head[max(0, i - 240):i]
                    mm = re.search(r"(else\s+)?if\s+([^{};]+?)\s*$", pre)
                    ma = re.search(r"\b\w+\s+if\s+([^{};=]+?(?:<=|==|<)[^{};=]+?)\s*=>\s*$", pre)
                    if ma: guard, is_else = ma.group(1), False
                    elif mm and not re.search(r"\bif\s+let\b", mm.group(0)): guard, is_else = mm.group(2), bool(mm.group(1))
                    else: guard = None
                    break
            i -= 1
        site = (parse_guard(guard) if guard else ".always", parse_target(m.group(1)))
        if fn not in out: out[fn] = []; order.append(fn)
        if is_else and out[fn]: out[fn][-1].append(site)
        else: out[fn].append([site])
    return [(fn, out[fn]) for fn in order]

def gen_wake_rules():
    lines = ["import Mutiny.Model.WakeRuleLang",
             "/-! GENERATED by tools/extract.py (G3) from /repo's current source on every run -- do not edit.",
             "    One definition per send path that calls `wake_stream`: its guard chains, in source order. -/",
             "namespace Mutiny.Generated", "open Mutiny.WakeRuleLang", ""]
    names = []
    for (cname, path) in WAKE_FILES:
        for fn, chains in wake_sites(path):
            name = f"{cname}_{fn}"
            names.append(name)
            body = ", ".join("[" + ", ".join(f"({g}, {t})" for g, t in ch) + "]" for ch in chains)
            lines.append(f"/-- `{fn}` in `{path}` -/")
            lines.append(f"def {name} : List Chain := [{body}]")
            lines.append("")
    lines.append("def wakeSites : List (String × List Chain) := [" + ", ".join(f'("{n}", {n})' for n in names) + "]")
    lines.append("")
    lines.append("end Mutiny.Generated")
    new = "\n".join(lines) + "\n"
    p = os.path.join(OUT, "WakeRules.lean")
    if not os.path.exists(p) or open(p).read() != new: open(p, "w").write(new)


# ---------------------------------------------------------------------------------------------------------------- G4
# the counter arithmetic of the two rings, per function, as a sequence of operator kinds in source order
#   -> lean/Mutiny/Generated/RingOps.lean   (Props/C15_Ops.lean: each sequence equals the operations the u32 machines
#      `Ring32` / `LockRing32` perform at the corresponding program points)
RING_FILES = [
    ("atomicMove", "src/ogre_std/ogre_queues/atomic/atomic_move.rs",
     ["leak_slot_internal", "try_publish_leaked_internal", "try_publish_leaked_internal_index", "try_unleak_slot_internal",
      "try_unleak_slot_index_internal", "consume_leaking_internal", "release_leaked_internal", "len_after_publishing",
      "available_elements_count"]),
    ("fullSyncMove", "src/ogre_std/ogre_queues/full_sync/full_sync_move.rs",
     ["leak_slot_internal", "publish_leaked_internal", "unleak_internal", "consume_leaking_internal",
      "release_leaked_internal", "available_elements_count"]),
]
OP_PATTERNS = [
    (r"\.fetch_add\s*\(", "fetchAdd"), (r"\.fetch_sub\s*\(", "fetchSub"), (r"\.compare_exchange(?:_weak)?\s*\(", "cas"),
    (r"\.overflowing_sub\s*\(", "wsub"), (r"\.wrapping_sub\s*\(", "wsub"), (r"\.overflowing_add\s*\(", "wadd"), (r"\.wrapping_add\s*\(", "wadd"),
    (r"\.saturating_sub\s*\(", "ssub"), (r"\.saturating_add\s*\(", "sadd"), (r"\.checked_(?:sub|add|mul)\s*\(", "checked"),
    (r"\bas\s+i32\b", "asI32"), (r"\b[iu]32::max\s*\(", "max"), (r"\b[iu]32::min\s*\(", "min"),
    (r"(?<=[\w\)\]])\s\+=\s", "caddAssign"), (r"(?<=[\w\)\]])\s-=\s", "csubAssign"),
    (r"(?<=[\w\)\]])\s\+\s(?=[\w\(])", "cadd"), (r"(?<=[\w\)\]])\s-\s(?=[\w\(])", "csub"), (r"(?<=[\w\)\]])\s\*\s(?=[\w\(])", "cmul"),
    (r"(?<=[\w\)\]])\s/\s(?=[\w\(])", "div"), (r"(?<=[\w\)\]])\s%\s(?=[\w\(])", "mod"),
    (r"(?<=[\w\)\]])\+1\b", "cadd"), (r"(?<=[\w\)\]])-1\b", "csub"),
]

def fn_body(src, name):
    m = re.search(r"\bfn\s+" + re.escape(name) + r"\b", src)
    if not m: return None
    i = src.index("{", m.end())
    # skip a `where` clause / return type containing braces? (none here); brace matching
    depth, j = 0, i
    while True:
        c = src[j]
        if c == "{": depth += 1
        elif c == "}":
            depth -= 1
            if depth == 0: break
        j += 1
    return src[i + 1:j]

def ring_ops(body):
    body = strip_comments(body)
    body = re.sub(r'vp!\([^;]*\);', "", body)
    body = re.sub(r'"[^"\n]*"', '""', body)
    body = re.sub(r"<\s*[A-Za-z_][\w:]*(?:\s*,\s*[\w:]+)*\s*>", "", body)          # turbofish / generic arguments
    body = re.sub(r"&\s*(?:mut\s*)?\*", "&", body)                                  # `&mut * ptr`, `&* ptr`: dereferences, not products
    body = re.sub(r"([{(=])\s*\*\s*", r"\1 DEREF", body)                           # `{ * self.tail.get() }`, `= *x`
    found = []
    for pat, kind in OP_PATTERNS:
        for m in re.finditer(pat, body):
            found.append((m.start(), kind))
    found.sort()
    return [k for _, k in found]

def gen_ring_ops():
    lines = ["/-! GENERATED by tools/extract.py from /repo's current source on every run -- do not edit.",
             "The counter arithmetic of the two ring buffers: per function, the operator kinds in source order",
             "(`wsub`/`wadd` = overflowing_/wrapping_ sub/add, `cadd`/`csub`/`cmul` = plain `+` `-` `*` (checked in a build with overflow",
             "checks), `asI32` = `as i32`, `max`, `div`, `mod`, `fetchAdd`, `cas`, `ssub`/`sadd` = saturating, `checked` = checked_*). -/",
             "namespace Mutiny.Generated", ""]
    names = []
    for (prefix, path, fns) in RING_FILES:
        src = open(os.path.join(REPO, path)).read()
        for fn in fns:
            body = fn_body(src, fn)
            ops = ring_ops(body) if body is not None else ["<function not found>"]
            nm = f"{prefix}_{fn}"
            names.append(nm)
            lines.append(f"/-- `{fn}` in `{path}` -/")
            lines.append(f"def {nm} : List String := [" + ", ".join(lean_str(o) for o in ops) + "]")
            lines.append("")
    lines.append("def ringOps : List (String × List String) := [" + ", ".join(f'("{n}", {n})' for n in names) + "]")
    lines.append("")
    lines.append("end Mutiny.Generated")
    new = "\n".join(lines) + "\n"
    p = os.path.join(OUT, "RingOps.lean")
    if not os.path.exists(p) or open(p).read() != new: open(p, "w").write(new)

def main():
    os.makedirs(OUT, exist_ok=True)
    lines = ["import Mutiny.Model.Teardown",
             "/-! GENERATED by tools/extract.py from /repo's current source on every run -- do not edit. -/",
             "namespace Mutiny.Generated", "open Mutiny.Teardown", ""]
    names = []
    for (lname, path, sname) in STRUCTS:
        fs = struct_fields(path, sname)
        roles = [(f, classify(f, t)) for (f, t) in fs]
        names.append(lname)
        lines.append(f"/-- `{sname}` in `{path}`: fields in declaration (= drop) order -/")
        lines.append(f"def {lname} : List (String × Role) := [" + ", ".join(f'("{f}", .{r})' for f, r in roles) + "]")
        lines.append("")
    lines.append("def allStructs : List (String × List (String × Role)) := [" + ", ".join(f'("{n}", {n})' for n in names) + "]")
    lines.append("")
    lines.append("end Mutiny.Generated")
    new = "\n".join(lines) + "\n"
    p = os.path.join(OUT, "DropOrder.lean")
    if not os.path.exists(p) or open(p).read() != new: open(p, "w").write(new)
    # G2: hook inventory
    tags = []
    for root, _, files in os.walk(os.path.join(REPO, "src")):
        for fn in sorted(files):
            if not fn.endswith(".rs"): continue
            rel = os.path.relpath(os.path.join(root, fn), REPO)
            for m in re.finditer(r'vp!\("([^"]+)"', open(os.path.join(root, fn)).read()):
                tags.append((rel, m.group(1)))
    tags.sort()
    tl = ["/-! GENERATED by tools/extract.py: every `vp!` hook tag of the current source, per file, in source order. -/",
          "namespace Mutiny.Generated", "",
          "def hookTags : List (String × String) := ["]
    tl.append(",\n".join(f'  ("{f}", "{t}")' for f, t in tags))
    tl.append("]\n\nend Mutiny.Generated")
    new = "\n".join(tl) + "\n"
    p = os.path.join(OUT, "Tags.lean")
    if not os.path.exists(p) or open(p).read() != new: open(p, "w").write(new)

if __name__ == "__main__":
    main()
    gen_wake_rules()
    gen_ring_ops()
