#!/bin/bash
# tools/thorough_all.sh [props...] -- runs the thorough tier of the given (default: all) properties; meant for `vp run --with-repo`
# (uses the snapshot of /repo's HEAD when VP_RUN_REPO is set so that seeded patches applied to /repo meanwhile do not disturb it)
cd "$(dirname "$0")/.."
if [ -n "${VP_RUN_REPO:-}" ]; then
  sed -i "s#path = \"/repo\"#path = \"$VP_RUN_REPO\"#" harness/Cargo.toml
  export VERIF_REPO=$VP_RUN_REPO
fi
bin/setup > setup.log 2>&1 || { echo "setup failed"; tail -20 setup.log; exit 1; }
props=${@:-C01 C02 C03 C04 C05 C06 C07 C08 C09 C10 C11 C12 C13 C14 C15 C16 C17 C18 C19 C20}
for p in $props; do
  s=$(date +%s); out=$(bin/check $p ${TIER:-thorough} 2>&1); rc=$?
  echo "== $p rc=$rc $(( $(date +%s)-s ))s"
  echo "$out" | grep -E "VIOLATION|KNOWN-FINDING|^# " | cut -c1-220
done
