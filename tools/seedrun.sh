#!/bin/bash
# tools/seedrun.sh <worktree-with-seeded-change-applied> <prop> [<prop> ...]
# Runs the quick checks of a COPY of /verif against a scratch worktree of /repo that carries a seeded change, so that neither /repo nor
# /verif is touched and several seeded changes can be judged while development goes on.  The copy is removed afterwards.
set -u
WT=$1; shift
NAME=$(basename "$WT")
COPY=/root/seedrun/$NAME
mkdir -p /root/seedrun; rm -rf "$COPY"
rsync -a --exclude tmp --exclude .git /verif/ "$COPY"/
sed -i "s#path = \"/repo\"#path = \"$WT\"#" "$COPY/harness/Cargo.toml"
export VERIF_REPO=$WT
cd "$COPY"
for p in "$@"; do
  s=$(date +%s)
  out=$(bin/check $p ${TIER:-quick} 2>&1); rc=$?
  echo "== $NAME $p rc=$rc ($(( $(date +%s) - s ))s)"
  echo "$out" | grep -E "^VIOLATION|^# |^KNOWN" | cut -c1-300
done
cd /; rm -rf "$COPY"
