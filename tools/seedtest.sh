#!/bin/bash
# tools/seedtest.sh <patch.diff> <prop> [<prop> ...]   -- applies a seeded change to /repo, runs the quick checks, reverts
set -u
PATCH=$1; shift
cd /verif
git -C /repo diff --quiet || { echo "/repo has uncommitted changes"; exit 2; }
git -C /repo apply "$PATCH" || { echo "patch does not apply"; exit 2; }
for p in "$@"; do
  s=$(date +%s)
  out=$(bin/check $p ${TIER:-quick} 2>&1); rc=$?
  echo "== $p rc=$rc ($(( $(date +%s) - s ))s)"
  echo "$out" | grep -E "^VIOLATION|^# " | cut -c1-260
done
git -C /repo checkout -- .
