#!/usr/bin/env python3
"""Regenerates /verif/MANIFEST.json from bin/props.py (claimed properties) -- run after editing props.py."""
import json, os, sys, subprocess
ROOT = os.path.dirname(os.path.dirname(os.path.abspath(__file__)))
sys.path.insert(0, os.path.join(ROOT, "bin"))
from props import PROPS, NOT_CLAIMED
ids = [json.loads(l)["id"] for l in open(os.path.join(ROOT, "properties.jsonl"))]
commits = subprocess.run("git -C /repo log --format=%h --grep='^verif:'", shell=True, stdout=subprocess.PIPE, text=True).stdout.split()
checks = []
for pid in ids:
    if pid not in PROPS: continue
    c = PROPS[pid]
    checks.append(dict(
        property_id=pid,
        quick_cmd=f"bin/check {pid} quick",
        thorough_cmd=f"bin/check {pid} thorough",
        evidence_file=f"/verif/evidence/{pid}.json",
        replay_cmd_template=f"bin/check {pid} --replay {{path}}",
        engine="lean4-proof+replay",
        level_claimed=dict(category="proof", text=c["level_text"], design_ref=c.get("design_ref", "DESIGN.md section 5, " + pid)),
        level_note=c["level_note"],
        technique=c.get("technique", "Lean 4 theorems over a small-step interleaving model (inductive invariant), tied to the code by step-level replay of recorded schedules on model and implementation"),
    ))
m = dict(
    version=1,
    setup_cmd="bin/setup",
    hooks=dict(guard="cargo feature `verif` (macro vp! expands to nothing without it)",
               enable="the harness crate depends on /repo by path with features=[\"verif\"] (cargo build in /verif/harness)",
               baseline_off_cmd="cd /repo && cargo test --workspace --no-fail-fast --offline",
               source_commits=commits, add_only=True),
    engines=[dict(name="lean4-proof+replay", path="/verif/lean + /verif/harness + /verif/bin/check",
                  serves_properties=[c["property_id"] for c in checks],
                  kind_free_text="Lean 4 machine-checked theorems about hand-written executable models; models tied to /repo on every run by replaying, on the compiled Lean model, the schedules recorded from the real code under a deterministic baton scheduler (cargo feature verif hooks); implementation-side oracle for concrete replays; two small model tables generated from the source (tools/extract.py)")],
    checks=checks,
    notes="See DESIGN.md. known_findings.json lists recorded and fixed defects.",
    not_applicable=[dict(property_id=p, reason=NOT_CLAIMED.get(p, "check under construction in this session; not yet claimed")) for p in ids if p not in PROPS],
)
json.dump(m, open(os.path.join(ROOT, "MANIFEST.json"), "w"), indent=1)
print("claimed:", [c["property_id"] for c in checks])
