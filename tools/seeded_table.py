#!/usr/bin/env python3
"""prints the markdown table of /verif/seeded/*/meta.json (pasted into DESIGN.md section 11.7)"""
import json, glob, os
print("| id | property | change (one line) | needs | first run of my checks | what catches it now |")
print("|---|---|---|---|---|---|")
for d in sorted(glob.glob(os.path.join(os.path.dirname(__file__), "..", "seeded", "*"))):
    m = json.load(open(os.path.join(d, "meta.json")))
    db = m.get("detected_by", {})
    missed = "first attempt" in db
    now = db.get("after strengthening") if missed else "; ".join(f"{k}: {v}" for k, v in db.items())
    cut = lambda s, n: (s[:n] + "…") if len(s) > n else s
    print(f"| {os.path.basename(d)} | {m['property']}{' (+' + ', '.join(m.get('also_breaks', [])) + ')' if m.get('also_breaks') else ''} | {cut(m.get('summary', ''), 170)} | {cut(m.get('needs', ''), 150)} | {'**missed**: ' + cut(db['first attempt'], 220) if missed else 'detected'} | {cut(now or '', 260)} |")
