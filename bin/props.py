"""Per-property configuration of bin/check: Lean modules, harness scenarios, trusted base."""

TB_COMMON = [
    "Lean 4.33 kernel; axioms allowed: propext, Classical.choice, Quot.sound (audited by #print axioms on every property theorem); no native_decide / bv_decide / sorry / own axioms",
    "the hand-written Lean models are tied to the code only by the replay of recorded schedules (step-level correspondence): as strong as the schedules explored, reported in this file",
    "sequential consistency: the baton scheduler runs one thread at a time, weak-memory reorderings are outside model and check",
    "compare_exchange_weak modelled as strong; plain loads/stores of shared cells modelled as atomic",
]

RING_RULE = ("schedules: uniform-random (and PCT-like) picks of the next thread at every vp! hook point of the real code, derived from VERIF_SEED; "
             "scripts (thread counts, operations, buffer size) derived from the same seed; a run is DISTINCT by the hash of its full trace and "
             "NON-TRIVIAL if it contains a receding CAS (producer or consumer overshoot), a spin on the lock flag, or a full/empty answer")

def ring(kind, sub, runs, extra=None, **kw):
    d = dict(bin="ring", args=[f"kind={kind}", f"sub={sub}"] + (extra or []), runs=runs, model_name="M1 Ring" if kind == "atomic" else "M2 LockRing")
    d.update(kw)
    return d

PROPS = {
 "C01": dict(
    lean=["C01"],
    scenarios=[ring("atomic", "mixed", 1600), ring("fullsync", "mixed", 1600)],
    rule=RING_RULE,
    trusted_base=TB_COMMON + ["crossbeam-channel (movable crossbeam Uni channel) is trusted to be a linearizable bounded MPMC queue"],
    assumptions=["payloads are distinct integers (the containers are payload-agnostic)"],
 ),
 "C02": dict(
    lean=["C02"],
    scenarios=[ring("atomic", "mixed", 1600), ring("fullsync", "mixed", 1600)],
    rule=RING_RULE,
    trusted_base=TB_COMMON,
    assumptions=["`full` is judged with slots held by sends in progress / reservations counted as taken, as the property states"],
 ),
 "C16": dict(
    lean=["C16"],
    scenarios=[ring("atomic", "mixed", 1600), ring("fullsync", "mixed", 1600)],
    rule=RING_RULE,
    trusted_base=TB_COMMON,
    assumptions=[],
 ),
}
