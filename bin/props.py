"""Per-property configuration of bin/check: Lean modules, harness scenarios, trusted base."""

TB_COMMON = [
    "Lean 4.33 kernel; axioms allowed: propext, Classical.choice, Quot.sound (audited by #print axioms on every property theorem); no native_decide / bv_decide / sorry / own axioms",
    "the hand-written Lean models are tied to the code only by the replay of recorded schedules (step-level correspondence): as strong as the schedules explored, reported in this file",
    "sequential consistency: the baton scheduler runs one thread at a time, weak-memory reorderings are outside model and check",
    "compare_exchange_weak modelled as strong; plain loads/stores of shared cells modelled as atomic",
]

RING_RULE = ("schedules: uniform-random (and PCT-like) picks of the next thread at every vp! hook point of the real code, derived from VERIF_SEED; "
             "scripts (thread counts, operations, buffer size) derived from the same seed; a run is DISTINCT by the hash of its full trace and "
             "NON-TRIVIAL if it contains a receding CAS (producer or consumer overshoot), a spin on the lock flag, or a full/empty answer")

def ring(kind, sub, runs, extra=None, **kw):
    d = dict(bin="ring", args=[f"kind={kind}", f"sub={sub}"] + (extra or []), runs=runs, model_name="M1 Ring" if kind == "atomic" else "M2 LockRing")
    d.update(kw)
    return d

NOT_CLAIMED = {}

LN_RING = ("Theorems are about models M1 (AtomicMove) / M2 (FullSyncMove), not about the Rust text; the tie is the step-level replay "
           "(every hook point, register value and result of every recorded schedule must agree) - as strong as the schedules explored. "
           "Sequential consistency assumed; index-based cancel is excluded from the executions the ring theorems quantify over unless the cancel is exact (see cancel_steals in DESIGN.md).")

HANDLES_RULE = ("2-3 threads run random scripts of new / new_with_clones / clone / drop / bulk increment + raw copies / reference count / deref / "
                "unique new / drop / into_ogre_arc on one pool (sizes 2,4,8; both free-list kinds); scheduler picks at every reference-counter access; "
                "DISTINCT by trace hash, NON-TRIVIAL if a last-drop (dealloc) happens and at least one clone/bulk increment ran concurrently in the script")

def handles(kind, runs):
    return dict(bin="handles", args=[f"kind={kind}"], runs=runs, model_name="M3+M5 Handles")

LN_HANDLES = ("Theorems are about model M3+M5 (pool with an abstract FIFO free list + reference-count micro-steps); ring operations underneath are "
              "atomic at this granularity (their linearizability is C02). Handles are anonymous counts: the model assumes Rust's ownership rules "
              "(nobody drops a handle another call is borrowing) and that the safe-but-forging constructors from_allocated*/ref_from_id are not "
              "misused. Tie to the code: step-level replay of scheduled runs; destructor counters on an instrumented payload type.")

PROPS = {
 "C01": dict(
    level_text="Lean 4 proof for every execution (any thread count, schedule, length, buffer size) of the ring models that the Uni channels are built on: delivered sequence numbers are exactly 0..head-1 without repetition, each delivered value is the accepted one, nothing accepted is lost, a rejected send never wrote. Model tied to the code by step-level replay of thousands of scheduled runs; an implementation-side exactly-once oracle produces concrete replays.",
    level_note=LN_RING,
    lean=["C01"],
    scenarios=[ring("atomic", "mixed", 1600), ring("fullsync", "mixed", 1600)],
    rule=RING_RULE,
    trusted_base=TB_COMMON + ["crossbeam-channel (movable crossbeam Uni channel) is trusted to be a linearizable bounded MPMC queue"],
    assumptions=["payloads are distinct integers (the containers are payload-agnostic)"],
 ),
 "C02": dict(
    level_text="Lean 4 proof of a forward simulation to a bounded FIFO with fixed linearization points (tail CAS = enqueue, head CAS = dequeue), capacity bound, FIFO of the delivery log, and witness instants for every `empty` and `full` answer, for every execution of the ring models; tied to the code by step-level replay; real-time-order oracle (empty-while-pending, full-while-room, FIFO) on the implementation.",
    level_note=LN_RING,
    lean=["C02"],
    scenarios=[ring("atomic", "mixed", 1600), ring("fullsync", "mixed", 1600)],
    rule=RING_RULE,
    trusted_base=TB_COMMON,
    assumptions=["`full` is judged with slots held by sends in progress / reservations counted as taken, as the property states"],
 ),
 "C16": dict(
    level_text="Lean 4 proof that the reject path of a send writes nothing (frame theorem), that quiescent states have no capacity in flight, that a solo send is rejected within 3 own steps exactly when N are pending and accepted otherwise, and that from every quiescent empty reachable state exactly N sends are accepted - for every reachable state, hence after any number of fill/drain cycles; tied to the code by step-level replay; refill oracle on the implementation.",
    level_note=LN_RING,
    lean=["C16"],
    scenarios=[ring("atomic", "mixed", 1600), ring("fullsync", "mixed", 1600)],
    rule=RING_RULE,
    trusted_base=TB_COMMON,
    assumptions=[],
 ),
 "C13": dict(
    level_text="Lean 4 proof, for every execution of the pool model (any thread count / schedule / history, including shared and unique handles on top): free list, owned slots and unique allocations always form a permutation of 0..N-1 (so no slot has two owners, at most N are outstanding, exhaustion is answered exactly when the free list is empty, dealloc always finds room), FIFO reuse, id<->reference bijection; the free list itself is ring model M1/M2 (C02 witnesses for `empty`). Tied to the code by step-level replay; oracle: ids handed out are distinct, capacity restored.",
    level_note=LN_HANDLES,
    lean=["C13"],
    scenarios=[handles("atomic", 1200), handles("fullsync", 1200), ring("atomic", "mixed", 800), ring("fullsync", "mixed", 800)],
    rule=HANDLES_RULE,
    trusted_base=TB_COMMON,
    assumptions=["only owned ids are deallocated (the callers in this crate are OgreArc/OgreUnique/zero-copy containers, modelled)"],
 ),
 "C14": dict(
    level_text="Lean 4 proof over every execution of the handles model: rc = live + lent + owed, a held value is alive, unchanged and not in the free list, reference count equals live handles at quiescence, the destructor runs exactly at the fetch_sub that saw 1 (never earlier, never twice), into_ogre_arc neither destroys nor allocates, bulk increment + raw copies = clones. Tied to the code by step-level replay at every reference-counter access; destructor-count oracle.",
    level_note=LN_HANDLES,
    lean=["C14"],
    scenarios=[handles("atomic", 1600), handles("fullsync", 1600)],
    rule=HANDLES_RULE,
    trusted_base=TB_COMMON,
    assumptions=["setters initialise the slot without reading or dropping its previous bytes"],
 ),
 "C05": dict(
    level_text="Lean 4 proof: each payload generation is destroyed at most once and exactly once when its last handle is gone, a held slot is never re-allocated or overwritten, capacity is restored when everything is released (handles model); teardown: a general theorem characterises the field orders under which dropping a channel with buffered handles touches no freed pool memory, instantiated by `decide` on the field orders GENERATED from the current source on every run. Tied to the code by step-level replay + child-process teardown histories with an instrumented payload.",
    level_note=LN_HANDLES + " The teardown model is a region protocol (pool alive/freed): the allocator-level use-after-free itself is only observed on the real code as a crash of the child process.",
    lean=["C05"],
    scenarios=[handles("atomic", 1200), handles("fullsync", 1200), dict(bin="teardown", args=[], runs=100, model=False, single=True, model_name="Teardown (generated field orders)")],
    rule=HANDLES_RULE + "; teardown: histories (events sent, consumed, handles released before/after) per channel kind, each in a child process",
    trusted_base=TB_COMMON + ["tools/extract.py (field-order translator): a mis-parse makes the generated obligation fail or pass wrongly; its output is committed to the evidence"],
    assumptions=["payload handles do not outlive their channel", "setters initialise the slot without reading or dropping its previous bytes"],
 ),
 "C18": dict(
    level_text="Lean 4 proof for every execution of the stack model (both stacks): mutual exclusion of the critical region, the linearized history replayed on an abstract bounded stack is legal and yields the current content (LIFO), full/empty answers are exact at the linearization instant inside the call, multiset conservation; the two non-blocking queues are the zero-copy containers over ring models M1/M2 whose bounded-FIFO refinement is C02 (restated in C18_Queue for the atomic queue, C02_LockRing for the full-sync one). Tied to the code: step-level replay (atomic-flag stack at every flag access; parking-lot stack at operation granularity, its mutex is trusted), result-level Wing-Gong linearizability search on the stacks and real-time FIFO / empty / full oracles on the queues under the scheduler; free-running multi-core conservation runs.",
    level_note="Theorems about models M12b (stacks) and M1/M2 (rings under the queues); parking_lot::RawMutex trusted to be a mutex; queue `full` is judged with slots held by operations in progress counted as taken (an allocate-then-publish design cannot refine a strictly atomic capacity-N queue); sequential consistency (the Relaxed unlock stores of the atomic stack are outside the model).",
    lean=["C18", "C02_LockRing"],
    scenarios=[dict(bin="misc", args=["sub=stack"], runs=1200, model_name="M12b Stack"), dict(bin="misc", args=["sub=plstack"], runs=800, model_name="M12b Stack"),
               dict(bin="misc", args=["sub=aqueue"], runs=800, model=False, model_name="(oracle only)"), dict(bin="misc", args=["sub=fqueue"], runs=800, model=False, model_name="(oracle only)"),
               dict(bin="misc", args=["sub=freerun"], runs=2, model=False, single=True, model_name="(free running)")],
    rule="2-4 threads with random push/pop (enqueue/dequeue) scripts on capacity 2/4/8; scheduler picks at every hook; DISTINCT by trace hash; NON-TRIVIAL if a full/empty answer occurs or a thread spins on the flag",
    trusted_base=TB_COMMON + ["parking_lot::RawMutex is a mutex"],
    assumptions=[],
 ),
 "C19": dict(
    level_text="Lean 4 proof for every execution of the CAS-loop model with an abstract floating-point update: the cell always equals the fold of the update over the measurements in commit order, every value ever stored (hence every reading) is the fold of a prefix - one (count, average) pair, never a mix -, each inc call commits exactly once, count = number of commits below the u32::MAX reset, split/join round trip, and over the rationals the recurrence computes the arithmetic mean exactly. Tied to the code: step-level replay with the update instantiated by the same IEEE single-precision formula (bit-exact comparison of every CAS); numeric mean tolerance checked by the oracle only.",
    level_note="Theorems about model M12a; f32 rounding is outside the model (checked numerically by the harness: relative 1e-3); lightweight_probe (documented as possibly out of sync) is not covered; sequential consistency.",
    lean=["C19"],
    scenarios=[dict(bin="misc", args=["sub=incavg"], runs=2400, model_name="M12a IncAvg")],
    rule="2-3 recording threads (1-5 measurements each incl. the -1.0 sentinel and 0) + a reading thread; scheduler picks at the load and at the CAS; DISTINCT by trace hash; NON-TRIVIAL if some CAS failed and was retried",
    trusted_base=TB_COMMON + ["Lean's Float32 and Rust's f32 are both IEEE-754 binary32 with round-to-nearest (compared bit for bit on every run)"],
    assumptions=["counts stay below the documented u32::MAX reset"],
 ),
}
