"""Per-property configuration of bin/check: Lean modules, harness scenarios, trusted base."""

TB_COMMON = [
    "Lean 4.33 kernel; axioms allowed: propext, Classical.choice, Quot.sound (audited by #print axioms on every property theorem); no native_decide / bv_decide / sorry / own axioms",
    "the hand-written Lean models are tied to the code only by the replay of recorded schedules (step-level correspondence): as strong as the schedules explored, reported in this file",
    "sequential consistency: the baton scheduler runs one thread at a time, weak-memory reorderings are outside model and check",
    "compare_exchange_weak modelled as strong; plain loads/stores of shared cells modelled as atomic",
]

RING_RULE = ("schedules: uniform-random (and PCT-like) picks of the next thread at every vp! hook point of the real code, derived from VERIF_SEED; "
             "scripts (thread counts, operations, buffer size) derived from the same seed; a run is DISTINCT by the hash of its full trace and "
             "NON-TRIVIAL if it contains a receding CAS (producer or consumer overshoot), a spin on the lock flag, or a full/empty answer")

def ring(kind, sub, runs, extra=None, **kw):
    d = dict(bin="ring", args=[f"kind={kind}", f"sub={sub}"] + (extra or []), runs=runs, model_name="M1 Ring" if kind == "atomic" else "M2 LockRing")
    d.update(kw)
    return d

NOT_CLAIMED = {}

LN_RING = ("Theorems are about models M1 (AtomicMove) / M2 (FullSyncMove), not about the Rust text; the tie is the step-level replay "
           "(every hook point, register value and result of every recorded schedule must agree) - as strong as the schedules explored. "
           "Sequential consistency assumed; index-based cancel is excluded from the executions the ring theorems quantify over unless the cancel is exact (see cancel_steals in DESIGN.md).")

MULTI_KINDS = ["arc_atomic", "arc_fullsync", "arc_crossbeam", "ogre_atomic", "ogre_fullsync"]
MULTI1_KINDS = ["marc_atomic", "marc_fullsync", "marc_crossbeam", "mogre_atomic", "mogre_fullsync"]   # Multi channels through one listener
UNI_KINDS = ["mfullsync", "matomic", "mcrossbeam", "zatomic", "zfullsync"]
UNI_RULE = ("real Uni channels (N in {2,4}, MAX_STREAMS in {1,2}, 1..MAX streams created) with 1-3 producers using send / send_with / send_with_async "
            "(suspended for a random number of turns) / reserve+send-reserved and hand-driven stream tasks that park on Pending and are re-polled when their waker "
            "fired (sometimes spuriously, sometimes through a new waker); scheduler picks at every streams-manager / poll hook; DISTINCT by trace hash; "
            "NON-TRIVIAL if some stream parked and some wake_stream call ran")
HANDLES_RULE = ("2-3 threads run random scripts of new / new_with_clones / clone / drop / bulk increment + raw copies / reference count / deref / "
                "unique new / drop / into_ogre_arc on one pool (sizes 2,4,8; both free-list kinds); scheduler picks at every reference-counter access; "
                "DISTINCT by trace hash, NON-TRIVIAL if a last-drop (dealloc) happens and at least one clone/bulk increment ran concurrently in the script")

def handles(kind, runs):
    return dict(bin="handles", args=[f"kind={kind}"], runs=runs, model_name="M3+M5 Handles")

LN_HANDLES = ("Theorems are about model M3+M5 (pool with an abstract FIFO free list + reference-count micro-steps); ring operations underneath are "
              "atomic at this granularity (their linearizability is C02). Handles are anonymous counts: the model assumes Rust's ownership rules "
              "(nobody drops a handle another call is borrowing) and that the safe-but-forging constructors from_allocated*/ref_from_id are not "
              "misused. Tie to the code: step-level replay of scheduled runs; destructor counters on an instrumented payload type.")

PROPS = {
 "C01": dict(
    level_text="Lean 4 proof for every execution (any thread count, schedule, length, buffer size) of the ring models that the Uni channels are built on: delivered sequence numbers are exactly 0..head-1 without repetition, each delivered value is the accepted one, nothing accepted is lost, a rejected send never wrote. Model tied to the code by step-level replay of thousands of scheduled runs; an implementation-side exactly-once oracle produces concrete replays.",
    level_note=LN_RING,
    lean=["C01", "C01_LockRing", "C13_ZeroCopy", "Tags"],
    scenarios=[ring("atomic", "mixed", 1600), ring("fullsync", "mixed", 1600)] +
              [dict(bin="uni", args=[f"kind={k}", "sub=flow"], runs=300, model_name="M8 Wake", kinds=["invented", "duplicate", "rejected_delivered", "lost", "panic"]) for k in UNI_KINDS] +
              [dict(bin="uni", args=[f"kind={k}", "sub=cancel"], runs=300, model_name="M8 Wake", kinds=["buffered_event_dropped_at_end", "invented", "duplicate", "rejected_delivered", "panic"]) for k in UNI_KINDS] +
              # every hook of the containers / of the crossbeam glue a yield point (interleavings INSIDE one send / poll): oracle only
              [dict(bin="uni", args=[f"kind={k}", "sub=fine"], runs=300, model=False, model_name="(oracle only, fine granularity)", kinds=["lost", "invented", "duplicate", "rejected_delivered", "order", "panic"]) for k in UNI_KINDS],
    rule=RING_RULE,
    trusted_base=TB_COMMON + ["crossbeam-channel (movable crossbeam Uni channel) is trusted to be a linearizable bounded MPMC queue"],
    assumptions=["payloads are distinct integers (the containers are payload-agnostic)"],
 ),
 "C02": dict(
    level_text="Lean 4 proof of a forward simulation to a bounded FIFO with fixed linearization points (tail CAS = enqueue, head CAS = dequeue), capacity bound, FIFO of the delivery log, and witness instants for every `empty` and `full` answer, for every execution of the ring models; tied to the code by step-level replay; real-time-order oracle (empty-while-pending, full-while-room, FIFO) on the implementation.",
    level_note=LN_RING,
    lean=["C02", "C02_LockRing", "C13_ZeroCopy", "Tags"],
    scenarios=[ring("atomic", "mixed", 1600), ring("fullsync", "mixed", 1600)] +
              [dict(bin="uni", args=[f"kind={k}", "sub=flow"], runs=300, model_name="M8 Wake", kinds=["order", "invented", "duplicate", "lost", "panic"]) for k in UNI_KINDS] +
              [dict(bin="uni", args=[f"kind={k}", "sub=fine"], runs=300, model=False, model_name="(oracle only, fine granularity)", kinds=["lost", "invented", "duplicate", "order", "panic"]) for k in UNI_KINDS],
    rule=RING_RULE,
    trusted_base=TB_COMMON,
    assumptions=["`full` is judged with slots held by sends in progress / reservations counted as taken, as the property states"],
 ),
 "C16": dict(
    level_text="Lean 4 proof that the reject path of a send writes nothing (frame theorem), that quiescent states have no capacity in flight, that a solo send is rejected within 3 own steps exactly when N are pending and accepted otherwise, and that from every quiescent empty reachable state exactly N sends are accepted - for every reachable state, hence after any number of fill/drain cycles; tied to the code by step-level replay; refill oracle on the implementation.",
    level_note=LN_RING,
    lean=["C16", "C16_LockRing", "C13_ZeroCopy", "Tags"],
    scenarios=[ring("atomic", "mixed", 1600), ring("fullsync", "mixed", 1600)] +
              # "after any number of fill/drain cycles": the same scenarios with the sequence counters about to wrap (cf. C15)
              [ring(k, "mixed", 400, extra=["origins=4294967288,4294967280,4294967264"]) for k in ("atomic", "fullsync")] +
              [ring(k, "diff", 150, extra=["origins=0,4294967288,4294967280"], model=False) for k in ("atomic", "fullsync")] +
              [dict(bin="uni", args=[f"kind={k}", "sub=flow"], runs=300, model_name="M8 Wake", kinds=["rejected_delivered", "invented", "duplicate", "lost", "panic"]) for k in UNI_KINDS] +
              # "never blocks": an asynchronous send whose setter finished while the other producers filled the buffer must come back
              # (accepted or rejected) when it is polled again -- it must not wait for room
              [dict(bin="uni", args=[f"kind={k}", "sub=susp"], runs=150, model=False, model_name="(oracle only: asynchronous send resumed against a buffer the other producers filled meanwhile)", kinds=["async_send_never_returned", "panic", "no_progress", "rejected_delivered"]) for k in UNI_KINDS],
    rule=RING_RULE,
    trusted_base=TB_COMMON,
    assumptions=[],
 ),
 "C13": dict(
    level_text="Lean 4 proof (a) for the COMPOSED container at the granularity of every shared access of both rings (model M4 ZeroCopy = pool + free-list ring + ring of ids, each an instance of ring model M1): in every reachable state both rings satisfy the ring invariant, the ids in the free list and in the queue are pairwise distinct and < N, a slot held by a thread is in neither ring and held by nobody else (at most one owner), both rings always have room (pigeonhole over the conserved slots: publish never answers full, dealloc never finds the free list full), an allocation never returns a held slot, enqueue answers full only when the free list answered empty; (b) for every execution of the pool model (any thread count / schedule / history, including shared and unique handles on top): free list, owned slots and unique allocations always form a permutation of 0..N-1 (so no slot has two owners, at most N are outstanding, exhaustion is answered exactly when the free list is empty, dealloc always finds room), FIFO reuse, id<->reference bijection; the free list itself is ring model M1/M2 (C02 witnesses for `empty`). Tied to the code by step-level replay; oracle: ids handed out are distinct, capacity restored.",
    level_note=LN_HANDLES,
    lean=["C13", "C13_ZeroCopy", "Tags"],
    scenarios=[handles("atomic", 1200), handles("fullsync", 1200), ring("atomic", "mixed", 800), ring("fullsync", "mixed", 800)] +
              # the bare allocator with every free-list access a yield point and an EXACT exhaustion oracle (after seeded C13-4)
              [dict(bin="handles", args=["sub=pool", f"kind={k}"], runs=800, model=False, model_name="(oracle only: bare pool allocator, every free-list access a yield point, exact exhaustion oracle)", kinds=["exhausted_while_free", "slot_two_owners", "pool_not_full", "no_progress", "panic"]) for k in ("atomic", "fullsync")] +
              [dict(bin="misc", args=["sub=aqueue"], runs=600, model_name="M4 ZeroCopy (pool + free-list ring + ring of ids)", kinds=["duplicate", "lost", "fifo", "invented", "capacity_not_restored", "full_while_room", "empty_while_pending", "panic", "no_progress"])],
    rule=HANDLES_RULE,
    trusted_base=TB_COMMON,
    assumptions=["only owned ids are deallocated (the callers in this crate are OgreArc/OgreUnique/zero-copy containers, modelled)"],
 ),
 "C14": dict(
    level_text="Lean 4 proof over every execution of the handles model: rc = live + lent + owed, a held value is alive, unchanged and not in the free list, reference count equals live handles at quiescence, the destructor runs exactly at the fetch_sub that saw 1 (never earlier, never twice), into_ogre_arc neither destroys nor allocates, bulk increment + raw copies = clones. Tied to the code by step-level replay at every reference-counter access; destructor-count oracle.",
    level_note=LN_HANDLES,
    lean=["C14", "Tags"],
    scenarios=[handles("atomic", 1600), handles("fullsync", 1600),
               dict(bin="handles", args=["sub=shared"], runs=600, model=False, model_name="(oracle only: one handle shared by reference, scheduled at every reference-counter access)"),
               dict(bin="handles", args=["sub=freerun"], runs=3000, model=False, single=True, thorough_scale=20, model_name="(free-running threads: concurrent clones of a sole shared handle)")],
    rule=HANDLES_RULE,
    trusted_base=TB_COMMON,
    assumptions=["setters initialise the slot without reading or dropping its previous bytes"],
 ),
 "C05": dict(
    level_text="Lean 4 proof: each payload generation is destroyed at most once and exactly once when its last handle is gone, a held slot is never re-allocated or overwritten, capacity is restored when everything is released (handles model); teardown: a general theorem characterises the field orders under which dropping a channel with buffered handles touches no freed pool memory, instantiated by `decide` on the field orders GENERATED from the current source on every run. Tied to the code by step-level replay + child-process teardown histories with an instrumented payload.",
    level_note=LN_HANDLES + " The teardown model is a region protocol (pool alive/freed): the allocator-level use-after-free itself is only observed on the real code as a crash of the child process.",
    lean=["C05", "C13_ZeroCopy", "Tags"],
    scenarios=[handles("atomic", 1200), handles("fullsync", 1200), dict(bin="teardown", args=[], runs=100, model=False, single=True, thorough_scale=10, model_name="Teardown (generated field orders)")] +
              [dict(bin="multi", args=[f"kind={k}", f"sub={sub}", "drains=1"], runs=300, model_name="M6+M7 Multi", kinds=["destroyed_while_held", "slot_reused_while_held", "held_value_changed", "panic"]) for k in ["ogre_atomic", "ogre_fullsync", "arc_atomic"] for sub in ["fan", "churn"]] +
              # MOVABLE payloads (after seeded C05-5): a value yielded twice is a payload destroyed twice, a value lost in the ring a payload never destroyed, a value nobody
              # sent a slot handed out while its content was still owned -- the ring scenarios and the fine-grained Uni search, judged for exactly that
              [ring(k, "mixed", 600, kinds=["duplicate", "lost", "invented"]) for k in ("atomic", "fullsync")] +
              [dict(bin="uni", args=[f"kind={k}", "sub=fine"], runs=300, model=False, model_name="(oracle only, fine granularity: movable payloads)", kinds=["lost", "invented", "duplicate", "panic"]) for k in ["matomic", "mfullsync"]],
    rule=HANDLES_RULE + "; teardown: histories (events sent, consumed, handles released before/after) per channel kind, each in a child process",
    trusted_base=TB_COMMON + ["tools/extract.py (field-order translator): a mis-parse makes the generated obligation fail or pass wrongly; its output is committed to the evidence"],
    assumptions=["payload handles do not outlive their channel", "setters initialise the slot without reading or dropping its previous bytes"],
 ),
 "C18": dict(
    level_text="Lean 4 proof for every execution of the stack model (both stacks): mutual exclusion of the critical region, the linearized history replayed on an abstract bounded stack is legal and yields the current content (LIFO), full/empty answers are exact at the linearization instant inside the call, multiset conservation; the two non-blocking queues are the zero-copy containers over ring models M1/M2 whose bounded-FIFO refinement is C02 (restated in C18_Queue for the atomic queue, C02_LockRing for the full-sync one). Tied to the code: step-level replay (atomic-flag stack at every flag access; parking-lot stack at operation granularity, its mutex is trusted), result-level Wing-Gong linearizability search on the stacks and real-time FIFO / empty / full oracles on the queues under the scheduler; free-running multi-core conservation runs.",
    level_note="Theorems about models M12b (stacks) and M1/M2 (rings under the queues); parking_lot::RawMutex trusted to be a mutex; queue `full` is judged with slots held by operations in progress counted as taken (an allocate-then-publish design cannot refine a strictly atomic capacity-N queue); sequential consistency (the Relaxed unlock stores of the atomic stack are outside the model).",
    lean=["C18", "C02_LockRing", "C18_Queue", "C13_ZeroCopy", "Tags"],
    scenarios=[dict(bin="misc", args=["sub=stack"], runs=1200, model_name="M12b Stack"), dict(bin="misc", args=["sub=plstack"], runs=800, model_name="M12b Stack"),
               dict(bin="misc", args=["sub=aqueue"], runs=800, model_name="M4 ZeroCopy (pool + free-list ring + ring of ids)"), dict(bin="misc", args=["sub=fqueue"], runs=800, model=False, model_name="(oracle only)"),
               dict(bin="misc", args=["sub=freerun"], runs=2, model=False, single=True, thorough_scale=30, model_name="(free running)")],
    rule="2-4 threads with random push/pop (enqueue/dequeue) scripts on capacity 2/4/8; scheduler picks at every hook; DISTINCT by trace hash; NON-TRIVIAL if a full/empty answer occurs or a thread spins on the flag",
    trusted_base=TB_COMMON + ["parking_lot::RawMutex is a mutex"],
    assumptions=[],
 ),
 "C19": dict(
    level_text="Lean 4 proof for every execution of the CAS-loop model with an abstract floating-point update: the cell always equals the fold of the update over the measurements in commit order, every value ever stored (hence every reading) is the fold of a prefix - one (count, average) pair, never a mix -, each inc call commits exactly once, count = number of commits below the u32::MAX reset, split/join round trip, and over the rationals the recurrence computes the arithmetic mean exactly. Tied to the code: step-level replay with the update instantiated by the same IEEE single-precision formula (bit-exact comparison of every CAS); numeric mean tolerance checked by the oracle only.",
    level_note="Theorems about model M12a; f32 rounding is outside the model (checked numerically by the harness: relative 1e-3); lightweight_probe (documented as possibly out of sync) is not covered; sequential consistency.",
    lean=["C19", "Tags"],
    scenarios=[dict(bin="misc", args=["sub=incavg"], runs=2400, model_name="M12a IncAvg")],
    rule="2-3 recording threads (1-5 measurements each incl. the -1.0 sentinel and 0) + a reading thread; scheduler picks at the load and at the CAS; DISTINCT by trace hash; NON-TRIVIAL if some CAS failed and was retried",
    trusted_base=TB_COMMON + ["Lean's Float32 and Rust's f32 are both IEEE-754 binary32 with round-to-nearest (compared bit for bit on every run)"],
    assumptions=["counts stay below the documented u32::MAX reset"],
 ),
 "C04": dict(
    level_text="Lean 4 proof of `no reachable state is stuck` (an accepted event pending, all producers returned, every live stream parked and un-notified) for the poll/park/wake protocol model, for all seven wake rules (uni full-sync, atomic, crossbeam, send-reserved; a Multi listener's queue on the atomic and on the full-sync channels; the log channel), every number of streams/producers/buffer sizes/schedules, spurious polls and waker changes included, by an inductive invariant - BOTH for publications that are one atomic queue step observing the exact length (lock-based and crossbeam kinds) AND for the two-phase publications of the channels over AtomicMove (claim a sequence number; publish in claim order; measure the length by a fresh load of head AFTER the publication), interleaved arbitrarily with the streams' steps and with suspended asynchronous sends of the movable atomic channel; counterexample theorems for what the invariant does not survive (MAX_STREAMS = 0; the pinned claim-time length: findings D5a/D5b, repaired in /repo). The wake decision of EVERY send path of EVERY channel is re-read from the current source on every run by the translator (tools/extract.py G3 -> Generated/WakeRules.lean, a guard-chain term per function) and proved, for all MAX_STREAMS and lengths, to compute the model rule the theorem is instantiated with (Props/C04_Rules.lean, 24 send paths). Tied to the real channels by step-level replay of scheduled runs at two granularities: streams-manager accesses only (all kinds), and additionally the publication CAS and the length measurement of the two-phase ring as yield points (`sub=mid`: uni movable atomic, uni zero-copy atomic, Multi arc atomic, Multi ogre_arc atomic - for the pooled kinds the driver absorbs the steps of the pool's free-list ring and frees the model's slot at the instant the deallocation's publication CAS succeeds) - including plain sends spinning behind suspended reservations; stuck states are decided by the scheduler (nobody runnable), not timed out. A third, finest search (every ring access a yield point) judges the implementation alone.",
    level_note="Theorem about model M8, in which a ring operation is one step (C02) except for the producer's publication / length measurement on the two-phase ring, which are separate steps; the consumer's dequeue is one step at its linearization point (C02: the head CAS), the producer's head load reads the number of completed dequeues; one task per stream token for C07; Multi channels are replayed through one listener (MAX_STREAMS = 1; with several listeners each queue runs the same protocol independently); the log channel wakes every listed listener after every publication: rule `all`, an instance of the theorem like the others (its wake decision is read from the source by G3; its protocol is exercised by `mmaplog sub=wake`). The movable full-sync channel's send_with_async holds the queue-wide lock while suspended (finding D8b of C20): it is outside the executions of the theorem. The reserved-send paths (try_send_reserved) are modelled as one step.",
    lean=["C04", "C04_Rules", "Tags"],
    scenarios=[dict(bin="uni", args=[f"kind={k}", "sub=flow"], runs=500, model_name="M8 Wake", kinds=["lost_wakeup", "no_progress", "panic"]) for k in UNI_KINDS] +
              [dict(bin="uni", args=[f"kind={k}", "sub=flow"], runs=300, model_name="M8 Wake", kinds=["lost_wakeup", "no_progress", "panic"]) for k in MULTI1_KINDS] +
              [dict(bin="uni", args=[f"kind={k}", "sub=mid"], runs=800, model_name="M8 Wake (two-phase publication: publication CAS and length measurement are yield points)", kinds=["lost_wakeup", "no_progress", "panic"]) for k in ["matomic", "marc_atomic", "zatomic", "mogre_atomic"]] +
              [dict(bin="uni", args=[f"kind={k}", "sub=fine"], runs=300, model=False, model_name="(oracle only)", kinds=["lost_wakeup", "no_progress", "panic"]) for k in UNI_KINDS] +
              [dict(bin="mmaplog", args=["sub=wake"], runs=600, model=False, model_name="(oracle only: log channel, parked listener tasks)", kinds=["lost_wakeup", "no_progress", "panic"])],
    rule=UNI_RULE + "; `sub=mid`: additionally the publication CAS (am.p.publish) and the length measurement (am.p.len) of the two-phase ring; log channel (`mmaplog sub=wake`): 1-2 new-events listeners driven by tasks that are polled only while notified, 1-3 producers (send / send_with), yield points at every log-topic access and every wake-protocol access",
    trusted_base=TB_COMMON + ["tools/extract.py G3 (wake-rule translator): regex-level reading of `if … else if … { wake_stream(x) }` cascades; what it cannot express becomes an `.other` term on which the rule theorems fail", "crossbeam-channel: linearizable bounded queue with a linearizable len()", "the hand-rolled executor of the harness (re-polls a parked task iff its waker fired, or spuriously) stands for tokio's"],
    assumptions=["streams 0..k-1 of a Uni channel exist for the whole run (documented use)", "MAX_STREAMS >= 1"],
 ),
 "C07": dict(
    level_text="Lean 4 proof, for every execution of model M8 (cancel requests at any point, concurrent sends, spurious polls): a stream whose keep-running flag was cleared is never left parked and un-notified once the cancel's wake call has finished, it ends at its first empty consume, yields only buffered events meanwhile, and a cancel touches no other stream's flag / waker / state; counterexample theorem for `untargeted streams keep being woken` on Uni channels (recorded finding). cancel_all_streams(): its walk over used_streams is a small machine on top of the bookkeeping model. As REPAIRED in /repo (finding D11, fix 944df07: the walk holds streams_lock) - Model/CancelAllLock.lean: mutual exclusion on streams_lock is an inductive invariant of the walker + any number of threads creating / removing listeners, sending and polling, and FOR EVERY INTERLEAVING the streams the finished walk told to end are exactly the entries used_streams listed, up to the sentinel, at the instant the walker took the lock, each once, in order (c07_cancel_all_locked); the D11 schedule on the repaired walk ends with all three streams told to end (c07_d11_schedule_repaired). The PINNED unlocked walk stays as Model/CancelAll.lean: correct with no churn (c07_cancel_all_quiescent), misses a live stream when a lower-id listener is removed meanwhile (c07_cancel_all_race_counterexample). `multi sub=cancelall` searches the real channels for it on every run (corpus/C07). Tied to the code by step-level replay; the scheduler decides `parked forever`.",
    level_note="Theorem about model M8 under the hypothesis that different streams are driven by tasks with different wakers (TokRun); stream-id recycling is C10's bookkeeping theorem. Known finding: ending a proper subset of a Uni channel's streams starves the others.",
    lean=["C07", "C07_CancelAll", "C07_CancelAllLock", "Tags"],
    scenarios=[dict(bin="uni", args=[f"kind={k}", "sub=cancel"], runs=500, model_name="M8 Wake", kinds=["cancelled_stream_never_ended", "untargeted_stream_starved", "buffered_event_dropped_at_end", "no_progress", "panic", "invented", "duplicate"]) for k in UNI_KINDS] +
              [dict(bin="multi", args=[f"kind={k}", "sub=reuse"], runs=300, model=False, model_name="(oracle only: a stream id handed out again while its previous owner's removal is finishing)", kinds=["uncancelled_stream_ended", "no_progress", "panic"]) for k in MULTI_KINDS] +
              [dict(bin="exec", args=["sub=endreuse"], runs=120, model=False, single=True, thorough_scale=10, model_name="(oracle only: ONE stream ended through gracefully_end_stream() while its consumer re-subscribes and gets the released id; real clock)", kinds=["uncancelled_stream_ended", "untargeted_stream_starved", "cancelled_stream_never_ended", "buffered_event_dropped_at_end", "panic"])] +
              [dict(bin="multi", args=[f"kind={k}", "sub=cancelall"], runs=400, model_name="CancelAllLock (M6 bookkeeping + the walker of cancel_all_streams under streams_lock)", kinds=["cancelled_stream_never_ended", "no_progress", "panic"]) for k in MULTI_KINDS],
    rule=UNI_RULE + "; cancel requests for a random subset of the streams are injected after a random number of scheduler turns; `multi sub=cancelall`: 2-3 listeners of a Multi channel (MAX_STREAMS = 4) driven by tasks polled only while notified, one thread removing a listener, one calling cancel_all_streams(), a producer sending 0-2 events; replayed step by step on model CancelAllLock (every access of the walk, of the stream-id bookkeeping and of the fan-out loops; the poll / park / wake accesses in between belong to model M8 and are absorbed, only the flag value read at sm.flag is taken over to decide `pending` / `end`)",
    trusted_base=TB_COMMON,
    assumptions=["one task (waker) per stream"],
 ),
 "C08": dict(
    level_text="Lean 4 proof on ring model M1: index-based publication succeeds only on the caller's own sequence number and publishes the slot's content; while a reservation is held nobody else writes its slot; index-based cancel is exact, changes nothing but the reservation counter and is refused out of order, whenever producer-side calls are sequential (the property's scope; a counterexample theorem shows it is not exact with a concurrent producer mid-call); cancelled content is never delivered; at quiescence nothing is leaked and exactly N sends are accepted; u32 exactness of the lap reconstruction at any counter magnitude is C15. Tied to the code by step-level replay of random reservation histories with concurrent consumers, in the release and the overflow-checking build.",
    level_note=LN_RING + " Zero-copy / ogre_arc reservations are pool allocations (C13/C05 models).",
    lean=["C08", "Tags"],
    scenarios=[ring("atomic", "rsv", 2000), ring("atomic", "rsv", 1000, profile="checked"),
               ring("atomic", "rsv", 1000, extra=["origins=4294967288,0,4294967280,4294967264", "model32=1"], profile="checked", model_name="M1/32 Ring32"),
               dict(bin="ring", args=["kind=atomic", "sub=diff", "origins=0,4294967288,4294967280,4294967264"], runs=300, model=False, profile="checked", model_name="(differential)")] +
              [dict(bin="uni", args=[f"kind={k}", "sub=flow"], runs=300, model_name="M8 Wake", kinds=["invented", "duplicate", "rejected_delivered", "lost", "order", "panic"]) for k in ["matomic", "zatomic", "zfullsync"]] +
              # reserve_slot + try_send_reserved racing with an actively polling consumer at every ring / pool access (after seeded C08-4)
              [dict(bin="uni", args=[f"kind={k}", "sub=fine"], runs=300, model=False, model_name="(oracle only, fine granularity: reserved sends racing with consumers)", kinds=["lost", "invented", "duplicate", "rejected_delivered", "order", "panic", "no_progress"]) for k in ["matomic", "zatomic", "zfullsync"]],
    profiles=["release", "checked"],
    rule="one producer-side thread issues a random history of reserve / fill / publish-by-index / cancel-by-index (newest first, sometimes out of order) / plain send (only with no reservation outstanding), 1-2 concurrent consumers; NON-TRIVIAL if a full/empty answer or a receding CAS occurs; DISTINCT by trace hash",
    trusted_base=TB_COMMON,
    assumptions=["producer-side calls are sequential while reservations are cancelled (the channel documents reverse-order cancellation)", "payloads without destructor"],
 ),
 "C15": dict(
    level_text="Lean 4 proof of a REFINEMENT between two executable machines: Ring32 (model of AtomicMove computing on u32 residues with exactly the wrapping / signed / checked operations of the source) is, action for action and for runs of any length, the image modulo 2^32 of ring model M1 over free-running naturals, and never panics (c15_refinement; window hypotheses derived from a bound on the number of threads by a pigeonhole argument; index-based re-guess loops related at call level), and the same for FullSyncMove (LockRing32, c15_lockring_refinement); plus: every decision the rings take from their wrapping u32 counters (admission, emptiness as a signed difference, slot index, length, CAS equality, lap reconstruction of index-based publish / cancel with its checked + and *) equals the decision model M1/M2 takes from free-running naturals, for counters of ANY magnitude inside the windows the ring invariant provides, and that no checked operation overflows (counterexample theorem: the pinned `enqueuer_tail - 1` does). Tied to the code: step-level replay from origins just below 2^32 (counters wrap during the run), differential replay of sequential histories from five origins in the release and the overflow-checking build.",
    level_note="Ring32 / LockRing32 and the arithmetic of Mutiny/Model/U32.lean are hand transcriptions of the source, tied to it (a) by the translator G4: the operator kinds of the counter arithmetic of every ring function are re-read from the current source on every run (Generated/RingOps.lean) and proved equal to the operators the machines use (Props/C15_Ops.lean; a saturating / checked / plain operator substituted for a wrapping one breaks the obligation), (b) by replaying the recorded traces of the real AtomicMove on Ring32 itself from origins around 2^32 (every hook register compared as it is); the refinement theorem excludes an exact multiple of 2^32 events flowing between the two loads of the emptiness re-check (hypothesis noABA); FullSyncMove likewise: LockRing32 with refinement theorem c15_lockring_refinement (no thread hypothesis needed under the lock) and replay; BUFFER_SIZE a power of two enters as N | 2^32; fewer than 2^31 - N concurrent claimants.",
    lean=["C15", "C15_Machine", "C15_Ops", "Tags"],
    scenarios=[ring(k, "diff", 300, extra=["origins=0,4294967288,4294967280,4294967272,4294967264"], model=False, profile=p) for k in ("atomic", "fullsync") for p in ("release", "checked")] +
              [ring(k, "mixed", 800, extra=["origins=4294967288,4294967280,0,4294967264"]) for k in ("atomic", "fullsync")] +
              # the same real traces replayed on the u32 machine Ring32 itself (hook values compared as they are, index-based calls from every origin)
              [ring("atomic", sub, 800, extra=["origins=4294967288,4294967280,0,4294967264,4294967272", "model32=1"], profile=p, model_name="M1/32 Ring32") for sub in ("mixed", "rsv") for p in ("release", "checked")] +
              [ring("fullsync", "mixed", 800, extra=["origins=4294967288,4294967280,0,4294967264,4294967272", "model32=1"], profile=p, model_name="M2/32 LockRing32") for p in ("release", "checked")] +
              [handles("atomic", 300)],
    profiles=["release", "checked"],
    rule="the same seeded history is replayed from sequence origins {0, 2^32-8, 2^32-16, 2^32-24, 2^32-32} (rounded to multiples of N) and every answer compared; NON-TRIVIAL if it contains index-based publish/cancel; plus scheduled concurrent runs from those origins replayed on the model",
    trusted_base=TB_COMMON + ["verif_rebase (hook): advances all counters of a quiescent ring by a multiple of BUFFER_SIZE"],
    assumptions=["origins are multiples of BUFFER_SIZE"],
 ),
 "C20": dict(
    level_text="Lean 4 proof: (ring M1) with every other thread idle each operation completes within 5 own steps, consumers complete and receive the front element even while reservations are outstanding, whereas a publication behind a suspended reservation can never complete (tail cannot pass it) - the model-level witness of the movable-atomic finding; (lock ring M2) while a thread sits at the write point holding the flag nobody else ever acquires it - witness of the movable-full-sync finding - and with the flag free every operation completes in 5 own steps; zero-copy and Multi send_with_async suspend holding only a pool slot (model M8 asyncZc: every other action stays enabled). Tied to the code: scheduled runs with one send_with_async suspended until all other producers finish; the scheduler's stall verdict decides `never returns`.",
    level_note="Theorems about models M1/M2/M8; the two known findings (movable atomic, movable full-sync) are listed in known_findings.json; the retry-when-full loops of the crossbeam and arc channels wait by documented design and are outside the statement; log channel: send_with_async is todo!() upstream.",
    lean=["C20", "C20_LockRing", "C20_Wake", "Tags"],
    scenarios=[dict(bin="uni", args=[f"kind={k}", "sub=susp"], runs=100, model=False, model_name="(oracle only)", kinds=["blocked_by_suspended_send", "async_send_never_returned", "panic", "invented", "duplicate", "lost"]) for k in UNI_KINDS + MULTI1_KINDS],
    rule="producer 0 starts send_with_async and stays suspended until every other producer (plain sends; asynchronous ones too where the channel allocates before the await) has finished; stream tasks poll meanwhile; the Multi kinds with one listener or (half of the runs) two; every ring / lock / streams-manager hook is a yield point; NON-TRIVIAL if a stream parked and a wake call happened",
    trusted_base=TB_COMMON,
    assumptions=[],
 ),
 "C10": dict(
    level_text="Lean 4 proof over sequential histories of any length (create / send / receive-some / drop with leftovers / release, any MAX_STREAMS, both fan-out flavours) of the stream-id bookkeeping and fan-out model: vacant and live ids always partition 0..MAX-1, the used list is the sorted live ids followed by sentinels, the running count equals the number of live listeners, create never runs out of ids while fewer than MAX are live, a dropped id becomes vacant again; with the (repaired) drain-on-drop a listener's queue is empty when its id is handed out, and what a listener receives is exactly, in order and without repetition, a prefix of the events sent during its lifetime (all of them once it polled to empty); counterexample theorem for the pinned behaviour (stale events). Tied to the five real queue-per-listener Multi channels by step-level replay of random histories at the granularity of every bookkeeping access.",
    level_note="Theorem about model M6+M7 in which a per-listener queue operation is one step (rings: C02; crossbeam trusted); histories are sequential (the property's quantifier); concurrent churn is C17. The Uni channels use the same StreamsManagerBase code (bookkeeping part of the theorem applies verbatim).",
    lean=["C10", "Tags"],
    scenarios=[dict(bin="multi", args=[f"kind={k}", "sub=hist", "drains=1"], runs=400, model_name="M6+M7 Multi", kinds=["destroyed_while_held", "slot_reused_while_held", "held_value_changed", "stale_event", "invented", "duplicate", "order", "missed_event", "panic", "no_progress", "different_allocation"]) for k in MULTI_KINDS],
    rule="one thread, random history of length 4-22 of create-listener / send / receive 1-8 / drop-listener (with or without unconsumed events), MAX_STREAMS in {1,2,4}; DISTINCT by trace hash; NON-TRIVIAL if a listener was dropped and at least two were created",
    trusted_base=TB_COMMON + ["crossbeam-channel: linearizable bounded queue"],
    assumptions=[],
 ),
 "C11": dict(
    level_text="Lean 4 proof about the per-item decision function of the four executor kinds - RE-READ FROM THE SOURCE ON EVERY RUN: the translator (tools/extract.py G5) walks the match arms and instrument guards of every item_processor closure of src/stream_executor.rs and emits every way through it as (outcome path, metrics?, counters fed, how the error callback is invoked) plus the arms of `match concurrency_limit`; Props/C11_Table.lean proves each generated table equal to the one computed from the model's classify, for every kind, with and without a timeout, with and without metrics (12 obligations) - folded over ANY item list: the three counters add up to the number of items, each item feeds exactly one, the error callback runs once per failed item and never otherwise, a failed or timed-out item does not stop the fold, with a futures timeout every slow item is counted as timed out, and the event machine never has more item futures in flight than the limit. Tied to the code at history level: the counters handed to the real close callback, the error-callback invocation count and the measured maximum of concurrently running item futures of real tokio runs are compared with the model's fold (every kind x timeout x instruments x limit 1-8 x random item sequences).",
    level_note="The decision function classify of model M10 is tied to the source by the translator G5 (generated table = table computed from classify, machine-checked on every run); the translator is a 150-line brace-matching walker specialised to this file (a rewrite of the closures into another shape breaks it: reported as a broken obligation, then judged by the workload runs); tokio::time::timeout cancels at the deadline and futures::for_each{,_concurrent} respects its limit and visits every item - contracts, trusted and measured. Metrics-enabled instruments only (without metrics nothing is counted, by design); the fifth, internal spawn_non_futures_executor (failures counted, no callback parameter) is outside the four kinds of the property; concurrency_limit = 0 means unlimited in futures 0.3 and is outside the quantifier (limits 1..8).",
    lean=["C11", "C11_Table"],
    scenarios=[dict(bin="exec", args=["sub=account"], runs=160, model_name="M10 Exec", thorough_scale=40), dict(bin="exec", args=["sub=account", "rt=multi"], runs=12, single=True, thorough_scale=10, model_name="M10 Exec")],
    rule="random executor kind, timeout on/off (futures kinds), instruments in {metrics, logs+metrics, none}, limit 1-8, 0-12 items over {ok, err, slow, slow-then-err}; paused-clock current-thread tokio runtime (+ a few multi-thread real-time runs); DISTINCT by trace hash; NON-TRIVIAL if the sequence contains an error or a slow item",
    trusted_base=TB_COMMON + ["tokio (task scheduling, paused clock, time::timeout) and futures 0.3 (for_each, for_each_concurrent) behave as documented"],
    assumptions=["metrics enabled"],
 ),
 "C06": dict(
    level_text="Lean 4 proof about the event machine of one executor and its channel (accepted / yielded / finished / close called / close returned / callback; internal steps: flush sees nothing pending -> cancel; cancelled stream ends when nothing is buffered; for_each drops the stream after the item in flight, for_each_concurrent as soon as the stream ended): for sequential executors and for non-future items, whenever close has returned every event accepted before the call is processed, nothing is in flight, the stream is dropped; accepted events are never discarded (pending ++ inflight ++ finished is a permutation of the accepted ids); counterexample theorem for concurrent executors with future items (recorded finding). Tied to the code at history level: event logs of real Uni runs on tokio must be accepted by the machine (they are, including the failing ones) and are judged by the oracle.",
    level_note="Model M11: any number of close calls, bounded closes that expire (closeExpired) and cancel_all_streams() given before a close (cancelAll) included; tokio / futures contracts trusted (which orders occur is observed, the model allows every order they could choose). Known finding D6.",
    lean=["C06"],
    scenarios=[dict(bin="exec", args=["sub=close"], runs=200, thorough_scale=40, model_name="M11 Exec", kinds=["close_before_processed", "panic"]), dict(bin="exec", args=["sub=close", "rt=multi"], runs=12, single=True, thorough_scale=10, model_name="M11 Exec", kinds=["close_before_processed", "panic"]),
               dict(bin="exec", args=["sub=mclose"], runs=80, single=True, thorough_scale=10, model_name="M11 Exec (one event machine per listener)", kinds=["close_before_processed", "close_callback_count", "panic"]),
               dict(bin="exec", args=["sub=reclose"], runs=60, single=True, thorough_scale=10, model_name="M11 Exec (end signal given before the graceful close: cancelAll / closeExpired / several closes)", kinds=["close_before_processed", "close_callback_count", "close_failed", "panic"]),
               # a listener removed earlier by a BOUNDED flush_and_cancel_executor that expired, then an unbounded close() while another listener is busy (after seeded C06-5); real clock
               dict(bin="exec", args=["sub=mremove"], runs=24, single=True, thorough_scale=10, model_name="M11 Exec (one event machine per listener; bounded individual removal that expires, then close; real clock)", kinds=["close_never_returned", "close_before_processed", "close_callback_count", "close_failed", "panic"])],
    rule="random executor kind, limit 1-4, 0-6 events (sync / future / slow / failing items), close() called 1 ms after the sends (events buffered and / or in flight); `mclose`: the five queue-per-listener Multi kinds with 2-3 listeners (sequential futures executors) whose items take 0 / 3 / 10 ms, 1-12 events; `reclose`: sequential futures executor with 1-6 slow events and an unbounded close() issued after a bounded close that expired / after cancel_all_streams() / while another close() is waiting; DISTINCT by event log; NON-TRIVIAL if more than one event",
    trusted_base=TB_COMMON + ["tokio and futures 0.3 contracts as in C11"],
    assumptions=["the property is about closes with an unbounded timeout (bounded ones may give up; the model has them as closeExpired)"],
 ),
 "C12": dict(
    level_text="Lean 4 proof on the same event machine: the close callback occurs at most once, only when the stream is dropped and nothing is in flight, and no item is yielded or finished after it, for every executor kind and limit; status word: register_execution_finish only produces one of the two ended states and ProgrammaticallyEnded exactly from ScheduledToFinish (remark theorem: a report_scheduled_to_finish store landing after it leaves a non-ended status); the Uni latch fires the user callback exactly once, at the n-th executor; with the newies executor spawned inside the oldies' callback every old item is processed before any new one. Tied to the code at history level (event logs of real tokio runs; status and start/finish deltas read inside the real callback).",
    level_note="Model M10/M11; tokio / futures contracts trusted; the status race of the remark theorem was searched for on the real code and not exhibited (it needs flush_and_cancel_executor concurrent with the stream's own end).",
    lean=["C12", "C11_Table"],
    scenarios=[dict(bin="exec", args=["sub=close"], runs=200, thorough_scale=40, model_name="M11 Exec", kinds=["close_callback_count", "callback_before_last_item", "status_not_ended", "finish_before_start", "panic"]),
               dict(bin="exec", args=["sub=account"], runs=100, thorough_scale=40, model_name="M10 Exec", kinds=["close_callback_count", "panic"]),
               dict(bin="exec", args=["sub=mcancel"], runs=150, model=False, single=True, thorough_scale=10, model_name="(oracle only: Multi executors removed individually)", kinds=["close_callback_count", "status_not_ended", "programmatically_ended_unscheduled", "finish_before_start", "callback_before_last_item", "cancel_refused", "panic"]),
               dict(bin="exec", args=["sub=latch"], runs=300, model=False, single=True, thorough_scale=20, model_name="(stress, multi-thread runtime: the four executors of a Uni reach the latch at the same instant)", kinds=["close_callback_count", "panic"]),
               dict(bin="exec", args=["sub=transition"], runs=80, model=False, single=True, thorough_scale=10, model_name="(oracle only: log-channel Multi, oldies -> newies)", kinds=["executor_removal_never_returned", "new_before_old", "transition_lost_or_duplicated", "close_callback_count", "close_failed", "panic"])],
    rule="as C06/C11; DISTINCT by event log",
    trusted_base=TB_COMMON + ["tokio and futures 0.3 contracts as in C11"],
    assumptions=[],
 ),
 "C09": dict(
    level_text="Lean 4 proof, for every execution of the log-topic model in which each subscriber is polled by one task at a time (any number of publishers and subscribers, any schedule): positions become visible in position order (one total order, the same for every listener, extending each producer's call order), every listener sees at a position exactly the logged event; a joined subscriber's deliveries are literally the log prefix up to its cursor and it answers `nothing` only when it has yielded everything visible; a split pair created by one load `tl` of consumer_tail: the old half yields exactly positions [0, cur) with cur <= tl and ends exactly at tl, the new half exactly [tl, cur'): together a partition, every send completed before the load is old, every send started after it is new, publishers in flight at the load land in the new half; new-only likewise; slots are written once and never change after becoming visible (references stay valid). Counterexample theorem: two concurrent pollers of one subscriber skip an event. Tied to the real mmap log channel by step-level replay of scheduled runs with late subscriptions of the three implemented kinds.",
    level_note="Theorem about model M9 (the mmap file is a write-once array of slots; no bound on its size); sequential consistency - every atomic of the log topic is Relaxed in the source, including the publishing CAS and the subscriber's load (no release/acquire edge between the slot write and its reader): outside model and check. Old-only subscription is todo!() upstream and excluded, as the property says.",
    lean=["C09", "Tags"],
    scenarios=[dict(bin="mmaplog", args=[], runs=800, model_name="M9 MmapLog")],
    rule="1-3 publishers (1-4 events each), one subscribing thread creating 1-3 subscriptions (new only / old+new split / old+new joined) after random delays and consuming from random listeners at different speeds; every log-topic access is a yield point; DISTINCT by trace hash; NON-TRIVIAL if a late subscription happened and at least two publications",
    trusted_base=TB_COMMON + ["mmap'd memory behaves as memory (sparse file under /verif/tmp/mmap, removed after the run)"],
    assumptions=["each stream is polled by one task at a time (poll_next takes Pin<&mut Self>)"],
 ),
 "C03": dict(
    level_text="Lean 4 proof on the fan-out model, from any well-formed state with a fixed set of listeners and for ANY interleaving of any number of producers' fan-out loops with the listeners' polls: the listener bookkeeping is untouched, every completed send published its event exactly once to every listener and to nobody else, each listener's deliveries followed by its queue are exactly the publications to it in publication order (so it receives every event once, in order, and one producer's events in that producer's order), ogre_arc reference counts return to zero once every copy is released. All listeners receive the same allocation (checked by the oracle: Arc pointer / pool slot). The log channel's listeners are covered by the C09 theorems (same total order for everybody). Tied to the five queue-per-listener Multi channels by step-level replay at the granularity of the fan-out loop positions, and to the log channel by its own scenario.",
    level_note="Theorem about model M6+M7 in which a per-listener queue operation is one step (rings: C02; crossbeam trusted); sequences shorter than the buffer, as the property says (the arc channels' wait-when-full loop is never entered).",
    lean=["C03", "C09", "Tags"],
    scenarios=[dict(bin="multi", args=[f"kind={k}", "sub=fan", "drains=1"], runs=300, model_name="M6+M7 Multi", kinds=["destroyed_while_held", "slot_reused_while_held", "held_value_changed", "invented", "duplicate", "order", "missed_event", "different_allocation", "stale_event", "storage_leaked", "panic", "no_progress"]) for k in MULTI_KINDS] +
              [dict(bin="mmaplog", args=[], runs=300, model_name="M9 MmapLog")],
    rule="1..MAX_STREAMS listeners (MAX in {1,2,4}) created up front, 1-2 producers sending 1-3 events each, one consumer per listener polling 1-4 times, then a drain; yield points at every fan-out loop position and poll; DISTINCT by trace hash; NON-TRIVIAL if more than one fan-out step occurred",
    trusted_base=TB_COMMON + ["crossbeam-channel: linearizable bounded queue", "std::sync::Arc"],
    assumptions=["the set of listeners does not change during the sends (C17 otherwise)"],
 ),
 "C17": dict(
    level_text="PARTIAL proof: the C03 theorems (no create/drop micro-step between the first and last step of a send) for the queue-per-listener kinds; FULL statement for the log channel: in every reachable state of model M9 - publications, polls and listener creations of all three kinds by any number of threads interleaved at every access of the log topic - every subscriber holds literally the segment log[start, cursor) of the one shared log, each position once, in order, whatever listeners were created meanwhile (c17_log_listener_unaffected; a late subscriber gets a suffix: c09_new_only / c09_split_created; removing a log listener touches no state of the log). For the queue-per-listener kinds and arbitrary interleavings of listener creation / removal with the fan-out loop the property is FALSE of the code and of the model: three counterexample theorems (missed event, leaked pool slot, torn list) whose executions are exhibited on the real channels by the churn scenario and recorded as known findings. Tied to the code by step-level replay of the churn runs (the model reproduces the misbehaviour step by step).",
    level_note="Known findings D7-miss, D7-stale, D7-leak (known_findings.json). What is proved is the fixed-listener case for the queue-per-listener kinds and the full statement for the log channel; the full statement does not hold for the queue-per-listener kinds.",
    lean=["C17", "C17_Log", "C03", "Tags"],
    scenarios=[dict(bin="multi", args=[f"kind={k}", "sub=churn", "drains=1"], runs=300, model_name="M6+M7 Multi", kinds=["destroyed_while_held", "slot_reused_while_held", "held_value_changed", "missed_event", "stale_event", "storage_leaked", "invented", "duplicate", "order", "different_allocation", "panic", "no_progress"]) for k in MULTI_KINDS] +
              [dict(bin="mmaplog", args=[], runs=300, model_name="M9 MmapLog")],
    rule="2-3 listeners that exist throughout, one producer (1-3 events), one thread creating / dropping other listeners, MAX_STREAMS = 4; yield points at every bookkeeping access and fan-out position; DISTINCT by trace hash; NON-TRIVIAL if a bookkeeping step of the churn thread falls between two fan-out steps of one send",
    trusted_base=TB_COMMON + ["crossbeam-channel", "std::sync::Arc"],
    assumptions=[],
 ),
}
