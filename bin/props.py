"""Per-property configuration of bin/check: Lean modules, harness scenarios, trusted base."""

TB_COMMON = [
    "Lean 4.33 kernel; axioms allowed: propext, Classical.choice, Quot.sound (audited by #print axioms on every property theorem); no native_decide / bv_decide / sorry / own axioms",
    "the hand-written Lean models are tied to the code only by the replay of recorded schedules (step-level correspondence): as strong as the schedules explored, reported in this file",
    "sequential consistency: the baton scheduler runs one thread at a time, weak-memory reorderings are outside model and check",
    "compare_exchange_weak modelled as strong; plain loads/stores of shared cells modelled as atomic",
]

RING_RULE = ("schedules: uniform-random (and PCT-like) picks of the next thread at every vp! hook point of the real code, derived from VERIF_SEED; "
             "scripts (thread counts, operations, buffer size) derived from the same seed; a run is DISTINCT by the hash of its full trace and "
             "NON-TRIVIAL if it contains a receding CAS (producer or consumer overshoot), a spin on the lock flag, or a full/empty answer")

def ring(kind, sub, runs, extra=None, **kw):
    d = dict(bin="ring", args=[f"kind={kind}", f"sub={sub}"] + (extra or []), runs=runs, model_name="M1 Ring" if kind == "atomic" else "M2 LockRing")
    d.update(kw)
    return d

NOT_CLAIMED = {}

LN_RING = ("Theorems are about models M1 (AtomicMove) / M2 (FullSyncMove), not about the Rust text; the tie is the step-level replay "
           "(every hook point, register value and result of every recorded schedule must agree) - as strong as the schedules explored. "
           "Sequential consistency assumed; index-based cancel is excluded from the executions the ring theorems quantify over unless the cancel is exact (see cancel_steals in DESIGN.md).")

PROPS = {
 "C01": dict(
    level_text="Lean 4 proof for every execution (any thread count, schedule, length, buffer size) of the ring models that the Uni channels are built on: delivered sequence numbers are exactly 0..head-1 without repetition, each delivered value is the accepted one, nothing accepted is lost, a rejected send never wrote. Model tied to the code by step-level replay of thousands of scheduled runs; an implementation-side exactly-once oracle produces concrete replays.",
    level_note=LN_RING,
    lean=["C01"],
    scenarios=[ring("atomic", "mixed", 1600), ring("fullsync", "mixed", 1600)],
    rule=RING_RULE,
    trusted_base=TB_COMMON + ["crossbeam-channel (movable crossbeam Uni channel) is trusted to be a linearizable bounded MPMC queue"],
    assumptions=["payloads are distinct integers (the containers are payload-agnostic)"],
 ),
 "C02": dict(
    level_text="Lean 4 proof of a forward simulation to a bounded FIFO with fixed linearization points (tail CAS = enqueue, head CAS = dequeue), capacity bound, FIFO of the delivery log, and witness instants for every `empty` and `full` answer, for every execution of the ring models; tied to the code by step-level replay; real-time-order oracle (empty-while-pending, full-while-room, FIFO) on the implementation.",
    level_note=LN_RING,
    lean=["C02"],
    scenarios=[ring("atomic", "mixed", 1600), ring("fullsync", "mixed", 1600)],
    rule=RING_RULE,
    trusted_base=TB_COMMON,
    assumptions=["`full` is judged with slots held by sends in progress / reservations counted as taken, as the property states"],
 ),
 "C16": dict(
    level_text="Lean 4 proof that the reject path of a send writes nothing (frame theorem), that quiescent states have no capacity in flight, that a solo send is rejected within 3 own steps exactly when N are pending and accepted otherwise, and that from every quiescent empty reachable state exactly N sends are accepted - for every reachable state, hence after any number of fill/drain cycles; tied to the code by step-level replay; refill oracle on the implementation.",
    level_note=LN_RING,
    lean=["C16"],
    scenarios=[ring("atomic", "mixed", 1600), ring("fullsync", "mixed", 1600)],
    rule=RING_RULE,
    trusted_base=TB_COMMON,
    assumptions=[],
 ),
}
