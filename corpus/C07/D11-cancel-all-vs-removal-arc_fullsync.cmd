multi kind=arc_fullsync sub=cancelall runs=400 seed=5200
