multi kind=ogre_atomic sub=cancelall runs=400 seed=5100
