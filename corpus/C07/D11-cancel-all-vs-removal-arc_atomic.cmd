multi kind=arc_atomic sub=cancelall runs=600 seed=5000
