multi kind=arc_atomic sub=hist drains=1 runs=200 seed=3
