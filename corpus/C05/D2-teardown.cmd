teardown runs=60 seed=2
