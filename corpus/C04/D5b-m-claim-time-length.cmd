uni kind=matomic sub=fine runs=2500 seed=52001
