uni kind=matomic sub=flow runs=2000 seed=11000
