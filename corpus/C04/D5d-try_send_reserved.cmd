uni kind=zfullsync sub=flow runs=300 seed=3
