uni kind=zatomic sub=fine runs=2500 seed=52000
