uni kind=matomic sub=mid runs=2000 seed=52002
