ring kind=atomic sub=mixed runs=600 seed=7
