ring kind=atomic sub=diff origins=0,4294967288,4294967280 runs=300 seed=2 profile=checked
