//! Baton scheduler: logical threads are OS threads, exactly one of which runs at a time.  Every `vp!` hook point of the
//! instrumented crate that the scenario's filter accepts is a scheduling point: the thread parks there, the scheduler
//! picks who performs the next shared-memory access, and the pick is written to the trace (`pt <ltid> <tag> <value>`)
//! at the moment the thread is *resumed* -- i.e. trace order is the order of the accesses.
//!
//! Every random choice derives from one PRNG state (the seed), so a run is replayed exactly by its seed, or by its list
//! of choices (`Mode::Replay`).

use std::cell::Cell;
use std::collections::HashSet;
use std::hash::{Hash, Hasher};
use std::panic::{catch_unwind, AssertUnwindSafe};
use std::sync::{Arc, Condvar, Mutex, Once};

/// panic payload used to unwind logical threads when a run is ended by the scheduler
pub struct Abort;

pub type Cond = Box<dyn Fn() -> bool + Send>;

enum Status { Runnable, Blocked(Cond), Done }

struct Th { status: Status, at: (&'static str, u64), opidx: u32 }

#[derive(Clone, Debug, PartialEq)]
pub enum Verdict { Completed, Stalled, Deadlock, StepLimit, ReplayMismatch }

pub struct S {
    current: usize,
    th: Vec<Th>,
    rng: u64,
    pub trace: Vec<String>,
    pub choices: Vec<u8>,
    replay: Option<Vec<u8>>,
    seen: HashSet<u64>,
    stale: u32,
    stall_limit: u32,
    steps: usize,
    max_steps: usize,
    abort: Option<Verdict>,
    filter: fn(&str) -> bool,
    watch: fn(&str) -> bool,
    /// PCT-like mode: per-thread priorities + change points (None = uniform random)
    prio: Option<(Vec<u32>, Vec<usize>)>,
    /// threads that finished (normally, by a panic of the code under test, or unwound by the scheduler)
    finished: usize,
    /// threads that could not be unwound (the run was ended while they were inside a destructor): parked forever, leaked
    zombies: usize,
    panics: Vec<Option<String>>,
}

pub struct Sched { m: Mutex<S>, cv: Condvar }

thread_local! {
    static TID:  Cell<usize> = const { Cell::new(usize::MAX) };
    static LTID: Cell<usize> = const { Cell::new(0) };
    /// set while the scheduler evaluates a blocked thread's condition (which may call hooked code): hooks are ignored
    static IN_SCHED: Cell<bool> = const { Cell::new(false) };
}

pub fn xorshift(x: &mut u64) -> u64 {
    *x ^= *x << 13; *x ^= *x >> 7; *x ^= *x << 17; *x
}
pub fn seed_mix(seed: u64) -> u64 {
    let mut z = seed.wrapping_add(0x9E3779B97F4A7C15);
    z = (z ^ (z >> 30)).wrapping_mul(0xBF58476D1CE4E5B9);
    z = (z ^ (z >> 27)).wrapping_mul(0x94D049BB133111EB);
    (z ^ (z >> 31)) | 1
}

static PANIC_HOOK: Once = Once::new();

pub struct Config {
    pub seed: u64,
    pub replay: Option<Vec<u8>>,
    pub filter: fn(&str) -> bool,
    /// hook points that are recorded in the trace (`chk <thread> <tag> <value>`) without being scheduling points
    pub watch: fn(&str) -> bool,
    pub stall_limit: u32,
    pub max_steps: usize,
    pub pct: bool,
}
impl Config {
    pub fn new(seed: u64, filter: fn(&str) -> bool) -> Self {
        Config { seed, replay: None, filter, watch: |_| false, stall_limit: 3000, max_steps: 200_000, pct: false }
    }
}

pub struct Outcome {
    pub verdict: Verdict,
    pub trace: Vec<String>,
    pub choices: Vec<u8>,
    /// per logical thread: message of a panic raised by the code under test (not by the scheduler)
    pub panics: Vec<Option<String>>,
}

impl S {
    fn pick_next(&mut self) {
        if self.abort.is_some() { return }
        // re-evaluate blocked threads
        IN_SCHED.with(|f| f.set(true));
        for t in self.th.iter_mut() {
            if let Status::Blocked(c) = &t.status { if c() { t.status = Status::Runnable } }
        }
        IN_SCHED.with(|f| f.set(false));
        let runnable: Vec<usize> = (0..self.th.len()).filter(|&i| matches!(self.th[i].status, Status::Runnable)).collect();
        if runnable.is_empty() {
            if self.th.iter().any(|t| matches!(t.status, Status::Blocked(_))) { self.abort = Some(Verdict::Deadlock) }
            self.current = usize::MAX;
            return
        }
        self.steps += 1;
        if self.steps > self.max_steps { self.abort = Some(Verdict::StepLimit); return }
        let pick = if let Some(r) = &self.replay {
            let pos = self.choices.len();
            match r.get(pos) {
                Some(&c) if runnable.contains(&(c as usize)) => c as usize,
                Some(_) => { self.abort = Some(Verdict::ReplayMismatch); return }
                // past the end of the recorded choices: continue with the lowest runnable thread
                None => runnable[0],
            }
        } else if let Some((prio, changes)) = &mut self.prio {
            // PCT: run the runnable thread of highest priority; at change points demote the running one
            if changes.contains(&self.steps) {
                let cur = self.current;
                if cur < prio.len() { prio[cur] = 0; }
            }
            // small random perturbation keeps spinning threads from starving the others forever
            if xorshift(&mut self.rng) % 8 == 0 { runnable[(xorshift(&mut self.rng) % runnable.len() as u64) as usize] }
            else { *runnable.iter().max_by_key(|&&i| prio[i]).unwrap() }
        } else {
            runnable[(xorshift(&mut self.rng) % runnable.len() as u64) as usize]
        };
        self.choices.push(pick as u8);
        self.current = pick;
        // stall detection: the configuration (who is where, at which operation) keeps repeating
        let mut h = std::collections::hash_map::DefaultHasher::new();
        for t in &self.th { (t.opidx, t.at.0, t.at.1, matches!(t.status, Status::Done)).hash(&mut h); }
        pick.hash(&mut h);
        if self.seen.insert(h.finish()) { self.stale = 0 } else { self.stale += 1 }
        if self.stale > self.stall_limit { self.abort = Some(Verdict::Stalled) }
    }
}

impl Sched {
    fn wait_turn<'a>(&'a self, me: usize, mut s: std::sync::MutexGuard<'a, S>) -> std::sync::MutexGuard<'a, S> {
        self.cv.notify_all();
        while s.current != me && s.abort.is_none() { s = self.cv.wait(s).unwrap(); }
        if s.abort.is_some() {
            if std::thread::panicking() {
                // we are inside a destructor that runs because this thread is already being unwound: it can neither be
                // unwound again nor be allowed to go on -- leave it parked forever (the run's objects are leaked anyway)
                s.zombies += 1;
                self.cv.notify_all();
                drop(s);
                loop { std::thread::park(); }
            }
            drop(s);
            std::panic::resume_unwind(Box::new(Abort))
        }
        s
    }

    /// hook entry: called by the instrumented crate before each shared-memory access
    pub fn point(&self, tag: &'static str, v: u64) {
        let me = TID.with(|t| t.get());
        if me == usize::MAX || IN_SCHED.with(|f| f.get()) { return }
        let mut s = self.m.lock().unwrap();
        if !(s.filter)(tag) {
            if (s.watch)(tag) { let l = LTID.with(|t| t.get()); s.trace.push(format!("chk {l} {tag} {v}")); }
            return
        }
        s.th[me].at = (tag, v);
        s.pick_next();
        let mut s = self.wait_turn(me, s);
        let l = LTID.with(|t| t.get());
        s.trace.push(format!("pt {l} {tag} {v}"));
    }
}

/// handle given to each logical thread's body
pub struct Ctx { sched: Arc<Sched>, me: usize }

impl Ctx {
    pub fn tid(&self) -> usize { self.me }
    /// start of an operation of logical thread `ltid` (several logical threads may share one OS thread, sequentially)
    /// returns the trace position of the `call` line
    pub fn call(&self, ltid: usize, text: &str) -> usize {
        LTID.with(|t| t.set(ltid));
        let mut s = self.sched.m.lock().unwrap();
        s.th[self.me].opidx += 1;
        s.th[self.me].at = ("", 0);
        s.trace.push(format!("call {ltid} {text}"));
        s.trace.len() - 1
    }
    /// returns the trace position of the `ret` line
    pub fn ret(&self, text: &str) -> usize {
        let l = LTID.with(|t| t.get());
        let mut s = self.sched.m.lock().unwrap();
        s.trace.push(format!("ret {l} {text}"));
        s.trace.len() - 1
    }
    pub fn note(&self, text: String) {
        self.sched.m.lock().unwrap().trace.push(text);
    }
    /// harness-level scheduling point
    pub fn yield_point(&self, tag: &'static str, v: u64) {
        let mut s = self.sched.m.lock().unwrap();
        s.th[self.me].at = (tag, v);
        s.pick_next();
        let mut s = self.sched.wait_turn(self.me, s);
        let l = LTID.with(|t| t.get());
        s.trace.push(format!("pt {l} {tag} {v}"));
    }
    /// parks until `cond` holds (evaluated by the scheduler); if nobody else can run either, the run ends as `Deadlock`
    pub fn block_until(&self, cond: Cond) {
        let mut s = self.sched.m.lock().unwrap();
        s.th[self.me].status = Status::Blocked(cond);
        s.th[self.me].at = ("blocked", 0);
        s.pick_next();
        let _s = self.sched.wait_turn(self.me, s);
    }
    /// runs `f` with the hooks of this thread switched off (for observations that must not be scheduling points)
    pub fn quiet<R>(&self, f: impl FnOnce() -> R) -> R {
        reactive_mutiny::verif::participate(false);
        let r = f();
        reactive_mutiny::verif::participate(true);
        r
    }
    pub fn rand(&self, n: u64) -> u64 {
        let mut s = self.sched.m.lock().unwrap();
        xorshift(&mut s.rng) % n
    }
}

pub type Body = Box<dyn FnOnce(&Ctx) + Send>;

/// runs the given logical threads to completion (or until the scheduler ends the run) under the baton discipline
pub fn run(cfg: Config, bodies: Vec<Body>) -> Outcome {
    PANIC_HOOK.call_once(|| {
        let default = std::panic::take_hook();
        std::panic::set_hook(Box::new(move |info| {
            if info.payload().is::<Abort>() { return }
            if TID.with(|t| t.get()) != usize::MAX && std::env::var_os("VH_VERBOSE").is_none() { return }     // recorded in the trace instead
            default(info)
        }));
    });
    let n = bodies.len();
    let mut rng = seed_mix(cfg.seed);
    let prio = if cfg.pct {
        let mut p: Vec<u32> = (1..=n as u32).collect();
        for i in (1..n).rev() { let j = (xorshift(&mut rng) % (i as u64 + 1)) as usize; p.swap(i, j); }
        let changes = (0..3).map(|_| 1 + (xorshift(&mut rng) % 120) as usize).collect();
        Some((p, changes))
    } else { None };
    let sched = Arc::new(Sched {
        m: Mutex::new(S {
            current: usize::MAX,
            th: (0..n).map(|_| Th { status: Status::Runnable, at: ("start", 0), opidx: 0 }).collect(),
            rng, trace: vec![], choices: vec![], replay: cfg.replay, seen: HashSet::new(), stale: 0,
            stall_limit: cfg.stall_limit, steps: 0, max_steps: cfg.max_steps, abort: None, filter: cfg.filter, watch: cfg.watch, prio,
            finished: 0, zombies: 0, panics: vec![None; n],
        }),
        cv: Condvar::new(),
    });
    let sc = sched.clone();
    reactive_mutiny::verif::set_hook(Some(Box::new(move |tag, v| sc.point(tag, v))));
    let mut handles = vec![];
    for (me, body) in bodies.into_iter().enumerate() {
        let sched = sched.clone();
        handles.push(std::thread::Builder::new().stack_size(1 << 20).spawn(move || {
            TID.with(|t| t.set(me));
            LTID.with(|t| t.set(me));
            reactive_mutiny::verif::participate(true);
            let ctx = Ctx { sched: sched.clone(), me };
            let r = catch_unwind(AssertUnwindSafe(|| {
                { let s = sched.m.lock().unwrap(); let _s = sched.wait_turn(me, s); }
                body(&ctx);
            }));
            reactive_mutiny::verif::participate(false);
            TID.with(|t| t.set(usize::MAX));
            let mut panic_msg = None;
            if let Err(p) = r {
                if !p.is::<Abort>() {
                    let msg = p.downcast_ref::<String>().cloned().or_else(|| p.downcast_ref::<&str>().map(|s| s.to_string())).unwrap_or_else(|| "?".into());
                    panic_msg = Some(msg);
                }
            }
            let mut s = sched.m.lock().unwrap();
            if let Some(m) = &panic_msg {
                let l = LTID.with(|t| t.get());
                let m1 = m.replace('\n', " ");
                s.trace.push(format!("panic {l} {m1}"));
            }
            s.th[me].status = Status::Done;
            s.panics[me] = panic_msg;
            s.finished += 1;
            s.pick_next();
            sched.cv.notify_all();
        }).unwrap());
    }
    { let mut s = sched.m.lock().unwrap(); s.pick_next(); sched.cv.notify_all(); }
    {
        let mut s = sched.m.lock().unwrap();
        while s.finished + s.zombies < n { s = sched.cv.wait(s).unwrap(); }
    }
    drop(handles);      // detached: zombies never end
    reactive_mutiny::verif::set_hook(None);
    let mut s = sched.m.lock().unwrap();
    let panics = std::mem::take(&mut s.panics);
    Outcome {
        verdict: s.abort.clone().unwrap_or(Verdict::Completed),
        trace: std::mem::take(&mut s.trace),
        choices: std::mem::take(&mut s.choices),
        panics,
    }
}
