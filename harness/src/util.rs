//! small helpers shared by the scenario binaries: CLI arguments, PRNG, trace / summary output
use std::collections::BTreeMap;
use std::io::Write;

pub struct Args { pub kv: BTreeMap<String, String> }
impl Args {
    /// `key=value` arguments
    pub fn parse() -> Self {
        let mut kv = BTreeMap::new();
        for a in std::env::args().skip(1) {
            if let Some((k, v)) = a.split_once('=') { kv.insert(k.to_string(), v.to_string()); }
            else { kv.insert(a, "1".to_string()); }
        }
        Args { kv }
    }
    pub fn get(&self, k: &str, d: &str) -> String { self.kv.get(k).cloned().unwrap_or_else(|| d.to_string()) }
    pub fn num(&self, k: &str, d: u64) -> u64 { self.kv.get(k).and_then(|v| v.parse().ok()).unwrap_or(d) }
}

pub struct Rng(pub u64);
impl Rng {
    pub fn new(seed: u64) -> Self { Rng(crate::sched::seed_mix(seed)) }
    pub fn next(&mut self) -> u64 { crate::sched::xorshift(&mut self.0) }
    pub fn below(&mut self, n: u64) -> u64 { self.next() % n }
    pub fn range(&mut self, lo: u64, hi: u64) -> u64 { lo + self.below(hi - lo + 1) }
    pub fn chance(&mut self, num: u64, den: u64) -> bool { self.below(den) < num }
}

pub fn choices_str(c: &[u8]) -> String { c.iter().map(|x| char::from(b'0' + *x)).collect() }
pub fn parse_choices(s: &str) -> Vec<u8> { s.bytes().map(|b| b - b'0').collect() }

/// appends the lines of one run to the trace file
pub struct TraceOut { f: Option<std::io::BufWriter<std::fs::File>> }
impl TraceOut {
    pub fn new(path: &str) -> Self {
        if path.is_empty() { return TraceOut { f: None } }
        TraceOut { f: Some(std::io::BufWriter::new(std::fs::File::create(path).expect("trace file"))) }
    }
    pub fn write_run(&mut self, cfg: &str, lines: &[String]) {
        if let Some(f) = &mut self.f {
            writeln!(f, "{cfg}").unwrap();
            for l in lines { writeln!(f, "{l}").unwrap(); }
        }
    }
    pub fn finish(&mut self) { if let Some(f) = &mut self.f { f.flush().unwrap(); } }
}

pub fn json_str(s: &str) -> String {
    let mut o = String::from("\"");
    for c in s.chars() {
        match c { '"' => o.push_str("\\\""), '\\' => o.push_str("\\\\"), '\n' => o.push_str("\\n"), c if (c as u32) < 32 => o.push(' '), c => o.push(c) }
    }
    o.push('"'); o
}

/// one oracle verdict against the implementation
#[derive(Clone, Debug)]
pub struct Violation { pub run: u64, pub seed: u64, pub kind: String, pub detail: String, pub replay: String }

/// accumulates what a scenario binary measured; printed as one JSON object on stdout at the end
#[derive(Default)]
pub struct Report {
    pub scenario: String,
    pub runs: u64,
    pub steps: u64,
    pub distinct: std::collections::HashSet<u64>,
    pub nontrivial_distinct: u64,
    pub tags: BTreeMap<String, u64>,
    pub results: BTreeMap<String, u64>,
    pub verdicts: BTreeMap<String, u64>,
    pub config_hist: BTreeMap<String, u64>,
    pub violations: Vec<Violation>,
    pub samples: Vec<String>,
}
impl Report {
    pub fn new(scenario: &str) -> Self { Report { scenario: scenario.to_string(), ..Default::default() } }
    /// records one run; `nontrivial` by the scenario's own rule; returns whether the trace is new
    pub fn add_run(&mut self, trace: &[String], nontrivial: bool, cfgkey: &str, verdict: &str) -> bool {
        use std::hash::{Hash, Hasher};
        self.runs += 1;
        let mut h = std::collections::hash_map::DefaultHasher::new();
        cfgkey.hash(&mut h);
        for l in trace {
            l.hash(&mut h);
            let mut it = l.split(' ');
            match it.next() {
                Some("pt") => { self.steps += 1; it.next(); if let Some(tag) = it.next() { *self.tags.entry(tag.to_string()).or_default() += 1; } }
                Some("ret") => { it.next(); if let Some(r) = it.next() { *self.results.entry(r.to_string()).or_default() += 1; } }
                _ => {}
            }
        }
        *self.verdicts.entry(verdict.to_string()).or_default() += 1;
        *self.config_hist.entry(cfgkey.to_string()).or_default() += 1;
        let new = self.distinct.insert(h.finish());
        if new && nontrivial { self.nontrivial_distinct += 1; }
        if new && nontrivial && self.samples.len() < 3 { self.samples.push(format!("{cfgkey} :: {}", trace.join(" | "))); }
        new
    }
    pub fn print(&self) {
        let m = |b: &BTreeMap<String, u64>| format!("{{{}}}", b.iter().map(|(k, v)| format!("{}:{}", json_str(k), v)).collect::<Vec<_>>().join(","));
        let viol = self.violations.iter().map(|v| format!("{{\"run\":{},\"seed\":{},\"kind\":{},\"detail\":{},\"replay\":{}}}", v.run, v.seed, json_str(&v.kind), json_str(&v.detail), json_str(&v.replay))).collect::<Vec<_>>().join(",");
        let samples = self.samples.iter().map(|s| json_str(s)).collect::<Vec<_>>().join(",");
        println!("REPORT {{\"scenario\":{},\"runs\":{},\"steps\":{},\"distinct\":{},\"nontrivial_distinct\":{},\"tags\":{},\"results\":{},\"verdicts\":{},\"configs\":{},\"violations\":[{}],\"samples\":[{}]}}",
                 json_str(&self.scenario), self.runs, self.steps, self.distinct.len(), self.nontrivial_distinct, m(&self.tags), m(&self.results), m(&self.verdicts), m(&self.config_hist), viol, samples);
    }
}

/// writes a self-contained replay file and returns its path
pub fn write_replay(dir: &str, name: &str, header: &[String], trace: &[String]) -> String {
    if dir.is_empty() { return String::new() }
    std::fs::create_dir_all(dir).ok();
    let path = format!("{dir}/{name}.replay");
    let mut f = std::fs::File::create(&path).expect("replay file");
    for l in header { writeln!(f, "{l}").unwrap(); }
    writeln!(f, "--- trace (implementation, in execution order) ---").unwrap();
    for l in trace { writeln!(f, "{l}").unwrap(); }
    path
}

/// records which run is about to start (`<replay_dir>/.current-<pid>`): if the code under test kills the process (SIGSEGV in
/// freed memory, abort in a destructor, ...) the checker turns this into a replay command for that very run
pub fn mark_run(seed: u64) {
    let args: Vec<String> = std::env::args().collect();
    let dir = args.iter().find_map(|a| a.strip_prefix("replay_dir=")).unwrap_or("");
    if dir.is_empty() { return }
    std::fs::create_dir_all(dir).ok();
    let bin = std::path::Path::new(&args[0]).file_name().map(|x| x.to_string_lossy().to_string()).unwrap_or_default();
    let keep: Vec<&String> = args[1..].iter().filter(|a| !(a.starts_with("runs=") || a.starts_with("seed=") || a.starts_with("seedx=") || a.starts_with("trace=") || a.starts_with("replay_dir=") || a.starts_with("prop="))).collect();
    let cmd = format!("{bin} {} runs=1 seedx={seed}", keep.iter().map(|x| x.as_str()).collect::<Vec<_>>().join(" "));
    let _ = std::fs::write(format!("{dir}/.current-{}", std::process::id()), cmd);
}
