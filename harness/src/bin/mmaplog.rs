//! Scenario `mmaplog`: the log (mmap) Multi channel: concurrent publishers, late subscriptions of the three implemented
//! kinds (new only / old+new split / old+new joined), listeners consuming at different speeds.        (C09, C03, C17)
//!
//!   mmaplog seed=.. runs=.. trace=.. replay_dir=..
//! Yield points: every access of the log topic (`mm.*`).  Model: M9 `MmapLog` (step-level).

use std::pin::Pin;
use std::sync::{Arc, Mutex, atomic::{AtomicUsize, Ordering::SeqCst}};
use std::task::{Context, Poll, Wake, Waker};
use futures::Stream;
use reactive_mutiny::prelude::advanced::*;
use reactive_mutiny::mutiny_stream::MutinyStream;
use vh::sched::{self, Body, Config, Verdict};
use vh::util::*;

type Ch = ChannelMultiMmapLog<u64, 8>;
type St = MutinyStream<'static, u64, Ch, &'static u64>;

struct NoWake;
impl Wake for NoWake { fn wake(self: Arc<Self>) {} }

fn filter(tag: &str) -> bool { tag.starts_with("mm.") }
/// `sub=wake`: the poll / park / wake protocol of the log channel's listeners as well
fn filter_wake(tag: &str) -> bool {
    tag.starts_with("mm.") || matches!(tag, "ms.poll" | "sm.flag" | "sm.reg.cmp" | "sm.reg.lock" | "sm.reg.store" | "sm.reg.selfwake" | "sm.wake" | "sm.wake.lock"
        | "sm.wake.retry" | "sm.running" | "sync.spin")
}

struct FlagWaker(std::sync::atomic::AtomicBool);
impl Wake for FlagWaker {
    fn wake(self: Arc<Self>) { self.0.store(true, SeqCst) }
    fn wake_by_ref(self: &Arc<Self>) { self.0.store(true, SeqCst) }
}

/// C04 for the log channel: listeners (new events only) are polled by tasks that park on `Pending` and are polled again only
/// when their waker fired; 1-3 producers then publish.  Oracle: when every producer has returned and no task is notified,
/// no parked listener may have an unread event.
fn run_wake(seed: u64, replay: Option<Vec<u8>>, path: &str) -> (sched::Outcome, Vec<(String, String)>, String) {
    let ch: Arc<Ch> = Ch::verif_from_file(path);
    let mut rng = Rng::new(seed ^ 0x77AA);
    let np = rng.range(1, 3) as usize;
    let nl = rng.range(1, 2) as usize;
    let cfgkey = format!("wake/p{np}l{nl}");
    struct Task { stream: Option<std::mem::ManuallyDrop<St>>, flag: Arc<FlagWaker>, parked: bool, got: Vec<u64> }
    let tasks: Arc<Mutex<Vec<Task>>> = Arc::new(Mutex::new((0..nl).map(|_| { let (s, _id) = ch.create_stream_for_new_events();
        Task { stream: Some(std::mem::ManuallyDrop::new(s)), flag: Arc::new(FlagWaker(std::sync::atomic::AtomicBool::new(true))), parked: false, got: vec![] } }).collect()));
    let sent: Arc<Mutex<Vec<u64>>> = Arc::new(Mutex::new(vec![]));
    let done = Arc::new(AtomicUsize::new(0));
    let mut bodies: Vec<Body> = vec![];
    for p in 0..np {
        let n = rng.range(1, 3) as usize;
        let (done, ch, sent) = (done.clone(), ch.clone(), sent.clone());
        let with = rng.chance(1, 2);
        bodies.push(Box::new(move |ctx| {
            for i in 0..n {
                let v = (p as u64 + 1) * 1000 + i as u64;
                ctx.call(p, &format!("send {v}"));
                let ok = if with && i % 2 == 1 { ch.send_with(|slot| *slot = v).is_ok() } else { ch.send(v).is_ok() };
                ctx.ret("unit");
                assert!(ok);
                sent.lock().unwrap().push(v);
            }
            done.fetch_add(1, SeqCst);
        }));
    }
    // one executor thread per listener task: polls while notified, parks otherwise (as a tokio task would)
    let poll_task = |ctx: &sched::Ctx, tasks: &Mutex<Vec<Task>>, li: usize, lt: usize| -> bool {
        let (mut s, flag) = { let mut g = tasks.lock().unwrap(); (g[li].stream.take().unwrap(), g[li].flag.clone()) };
        flag.0.store(false, SeqCst);
        ctx.call(lt, &format!("poll {li}"));
        let w: Waker = flag.clone().into();
        let mut cx = Context::from_waker(&w);
        let r = Pin::new(&mut *s).poll_next(&mut cx);
        let mut g = tasks.lock().unwrap();
        g[li].stream = Some(s);
        match r {
            Poll::Ready(Some(v)) => { g[li].got.push(*v); g[li].parked = false; g[li].flag.0.store(true, SeqCst); drop(g); ctx.ret(&format!("item {}", *v)); true }
            _ => { g[li].parked = true; drop(g); ctx.ret("item none"); false }
        }
    };
    for li in 0..nl {
        let (tasks, done) = (tasks.clone(), done.clone());
        bodies.push(Box::new(move |ctx| {
            let lt = 10 + li;
            loop {
                let (t2, d2) = (tasks.clone(), done.clone());
                // runnable iff notified; gives up when all producers are done and it is not notified (quiescence)
                ctx.block_until(Box::new(move || t2.lock().unwrap()[li].flag.0.load(SeqCst) || d2.load(SeqCst) >= np));
                if !tasks.lock().unwrap()[li].flag.0.load(SeqCst) { break }
                poll_task(ctx, &tasks, li, lt);
            }
            done.fetch_add(1, SeqCst);
        }));
    }
    let mut cfg = Config::new(seed, filter_wake);
    cfg.replay = replay;
    let o = sched::run(cfg, bodies);
    let mut viol = vec![];
    if o.verdict != Verdict::Completed { viol.push(("no_progress".into(), format!("{:?}", o.verdict))); }
    for (i, p) in o.panics.iter().enumerate() { if let Some(m) = p { viol.push(("panic".into(), format!("thread {i} panicked: {}", &m[..m.len().min(200)]))); } }
    if o.verdict == Verdict::Completed {
        let total = sent.lock().unwrap().len();
        let mut g = tasks.lock().unwrap();
        for (li, t) in g.iter_mut().enumerate() {
            // the quiescent state: every producer returned, this task is parked and not notified
            if t.parked && !t.flag.0.load(SeqCst) && t.got.len() < total {
                viol.push(("lost_wakeup".into(), format!("log channel: every producer has returned ({total} events accepted), listener #{li} yielded {} of them and is parked with its waker un-notified: {} event(s) stay pending until something else happens", t.got.len(), total - t.got.len())));
            }
        }
        for t in g.iter_mut() { if let Some(mut s) = t.stream.take() { unsafe { std::mem::ManuallyDrop::drop(&mut s); } } }
        drop(g);
        drop(ch);
    } else { std::mem::forget(ch); }
    (o, viol, cfgkey)
}

#[derive(Clone, Copy, PartialEq, Debug)]
enum Kind { New, Old, NewOfSplit, Joined }

struct Listener { kind: Kind, sub_call: usize, sub_ret: usize, got: Vec<(u64, usize)>, ended: bool, stream: Option<std::mem::ManuallyDrop<St>> }
struct Shared { listeners: Vec<Listener>, sends: Vec<(u64, usize, usize, usize)> }

fn poll_once(ctx: &sched::Ctx, sh: &Mutex<Shared>, lt: usize, li: usize) -> bool {
    let mut s = match sh.lock().unwrap().listeners[li].stream.take() { Some(s) => s, None => return false };
    ctx.call(lt, &format!("poll {li}"));
    let w: Waker = Arc::new(NoWake).into();
    let mut cx = Context::from_waker(&w);
    let r = Pin::new(&mut *s).poll_next(&mut cx);
    let mut g = sh.lock().unwrap();
    g.listeners[li].stream = Some(s);
    match r {
        Poll::Ready(Some(v)) => { g.listeners[li].got.push((*v, v as *const u64 as usize)); drop(g); ctx.ret(&format!("item {}", *v)); true }
        Poll::Ready(None) => { g.listeners[li].ended = true; drop(g); ctx.ret("item none"); false }
        Poll::Pending => { drop(g); ctx.ret("item none"); false }
    }
}

fn run_one(seed: u64, replay: Option<Vec<u8>>, path: &str) -> (sched::Outcome, Vec<(String, String)>, String) {
    let ch: Arc<Ch> = Ch::verif_from_file(path);
    let mut rng = Rng::new(seed ^ 0x33AA);
    let np = rng.range(1, 3) as usize;
    let nsubs = rng.range(1, 3) as usize;
    let cfgkey = format!("p{np}s{nsubs}");
    let sh = Arc::new(Mutex::new(Shared { listeners: vec![], sends: vec![] }));
    let done = Arc::new(AtomicUsize::new(0));
    let mut bodies: Vec<Body> = vec![];
    for p in 0..np {
        let n = rng.range(1, 4) as usize;
        let (sh, done, ch) = (sh.clone(), done.clone(), ch.clone());
        bodies.push(Box::new(move |ctx| {
            for i in 0..n {
                let v = (p as u64 + 1) * 1000 + i as u64;
                let c = ctx.call(p, &format!("send {v}"));
                let ok = ch.send(v).is_ok();
                let r = ctx.ret("unit");
                assert!(ok);
                sh.lock().unwrap().sends.push((v, p, c, r));
            }
            done.fetch_add(1, SeqCst);
        }));
    }
    // one subscribing thread (subscriptions are sequential among themselves, concurrent with the publishers), which also
    // drives the listeners it created, at different speeds
    {
        let (sh, done, ch) = (sh.clone(), done.clone(), ch.clone());
        let mut srng = Rng::new(seed ^ 0x99);
        bodies.push(Box::new(move |ctx| {
            let lt = 10;
            for _ in 0..nsubs {
                for _ in 0..srng.below(6) { ctx.yield_point("h.delay", 0); }
                match srng.below(3) {
                    0 => {
                        let c = ctx.call(lt, "subnew");
                        let (s, _id) = ch.create_stream_for_new_events();
                        let n = sh.lock().unwrap().listeners.len();
                        let r = ctx.ret(&format!("subs {n}"));
                        sh.lock().unwrap().listeners.push(Listener { kind: Kind::New, sub_call: c, sub_ret: r, got: vec![], ended: false, stream: Some(std::mem::ManuallyDrop::new(s)) });
                    }
                    1 => {
                        let c = ctx.call(lt, "subsplit");
                        let ((old, _), (new, _)) = ch.create_streams_for_old_and_new_events();
                        let n = sh.lock().unwrap().listeners.len();
                        let r = ctx.ret(&format!("subs {n} {}", n + 1));
                        let mut g = sh.lock().unwrap();
                        g.listeners.push(Listener { kind: Kind::Old, sub_call: c, sub_ret: r, got: vec![], ended: false, stream: Some(std::mem::ManuallyDrop::new(old)) });
                        g.listeners.push(Listener { kind: Kind::NewOfSplit, sub_call: c, sub_ret: r, got: vec![], ended: false, stream: Some(std::mem::ManuallyDrop::new(new)) });
                    }
                    _ => {
                        let c = ctx.call(lt, "subjoined");
                        let (s, _id) = ch.create_stream_for_old_and_new_events();
                        let n = sh.lock().unwrap().listeners.len();
                        let r = ctx.ret(&format!("subs {n}"));
                        sh.lock().unwrap().listeners.push(Listener { kind: Kind::Joined, sub_call: c, sub_ret: r, got: vec![], ended: false, stream: Some(std::mem::ManuallyDrop::new(s)) });
                    }
                }
                // consume a little from a random listener
                let n = sh.lock().unwrap().listeners.len();
                for _ in 0..srng.below(4) { let li = srng.below(n as u64) as usize; poll_once(ctx, &sh, lt, li); }
            }
            done.fetch_add(1, SeqCst);
        }));
    }
    {
        // finalizer: when everybody is done every listener reads to the end
        let (sh, done) = (sh.clone(), done.clone());
        let others = np + 1;
        bodies.push(Box::new(move |ctx| {
            let d2 = done.clone();
            ctx.block_until(Box::new(move || d2.load(SeqCst) == others));
            let n = sh.lock().unwrap().listeners.len();
            for li in 0..n { while poll_once(ctx, &sh, 20, li) {} }
        }));
    }
    let mut cfg = Config::new(seed, filter);
    cfg.replay = replay;
    let o = sched::run(cfg, bodies);
    // ---------------------------------------------------------------- oracle
    let mut viol = vec![];
    let g = sh.lock().unwrap();
    if o.verdict != Verdict::Completed { viol.push(("no_progress".into(), format!("{:?}", o.verdict))); }
    for (i, p) in o.panics.iter().enumerate() { if let Some(m) = p { viol.push(("panic".into(), format!("thread {i} panicked: {}", &m[..m.len().min(200)]))); } }
    // the total order: positions = addresses of the yielded references
    let mut by_addr: std::collections::BTreeMap<usize, u64> = Default::default();
    for l in &g.listeners { for (v, a) in &l.got { if let Some(prev) = by_addr.insert(*a, *v) { if prev != *v { viol.push(("slot_changed".into(), format!("two listeners read different events ({prev} and {v}) at the same position"))); } } } }
    let total: Vec<u64> = by_addr.values().cloned().collect();
    let pos_of: std::collections::HashMap<u64, usize> = total.iter().enumerate().map(|(i, v)| (*v, i)).collect();
    // per-producer order inside the total order
    let mut last: std::collections::HashMap<u64, u64> = Default::default();
    for v in &total { if let Some(p) = last.insert(v / 1000, *v) { if p > *v { viol.push(("producer_order".into(), format!("the log orders {v} after {p} although their producer sent them the other way round"))); } } }
    if o.verdict == Verdict::Completed {
        for (li, l) in g.listeners.iter().enumerate() {
            let seq: Vec<u64> = l.got.iter().map(|x| x.0).collect();
            // contiguous, increasing segment of the total order, no repeats
            let ps: Vec<usize> = seq.iter().map(|v| *pos_of.get(v).unwrap_or(&usize::MAX)).collect();
            if ps.windows(2).any(|w| w[1] != w[0] + 1) { viol.push(("gap_or_repeat".into(), format!("listener #{li} ({:?}) yielded {:?}: not a gap-free, repeat-free run of the log order {:?}", l.kind, seq, total))); }
            for v in &seq { if !g.sends.iter().any(|s| s.0 == *v) { viol.push(("invented".into(), format!("listener #{li} yielded {v} which was never sent"))); } }
            match l.kind {
                Kind::Joined => if seq != total { viol.push(("replay_incomplete".into(), format!("the old+new (joined) listener #{li} yielded {:?} but the log is {:?}", seq, total))); },
                Kind::Old => { if ps.first().map(|p| *p != 0).unwrap_or(false) { viol.push(("old_not_from_start".into(), format!("old-events listener #{li} started at position {:?}", ps.first()))); }
                               if !l.ended { viol.push(("old_stream_never_ended".into(), format!("old-events listener #{li} did not end after its last event"))); } }
                Kind::New | Kind::NewOfSplit => { if !seq.is_empty() && *ps.last().unwrap() + 1 != total.len() { viol.push(("new_stream_incomplete".into(), format!("new-events listener #{li} stopped at position {} of {}", ps.last().unwrap(), total.len()))); } }
            }
            // events fully sent before the subscription call are old; events sent after it returned are new
            for s in &g.sends {
                let is_in = seq.contains(&s.0);
                match l.kind {
                    Kind::New | Kind::NewOfSplit => { if s.3 < l.sub_call && is_in { viol.push(("old_event_in_new_stream".into(), format!("listener #{li} ({:?}) subscribed at line {} yielded {} whose send had returned at line {}", l.kind, l.sub_call, s.0, s.3))); }
                                                      if s.2 > l.sub_ret && !is_in { viol.push(("new_event_missing".into(), format!("listener #{li} ({:?}) subscribed by line {} never yielded {} sent from line {}", l.kind, l.sub_ret, s.0, s.2))); } }
                    Kind::Old => { if s.3 < l.sub_call && !is_in { viol.push(("old_event_missing".into(), format!("old-events listener #{li} (split at lines {}..{}) never yielded {} whose send had returned at line {}", l.sub_call, l.sub_ret, s.0, s.3))); }
                                   if s.2 > l.sub_ret && is_in { viol.push(("new_event_in_old_stream".into(), format!("old-events listener #{li} yielded {} sent after the split", s.0))); } }
                    Kind::Joined => {}
                }
            }
        }
        // split pairs partition the log
        for li in 0..g.listeners.len() { if g.listeners[li].kind == Kind::Old {
            let mut both: Vec<u64> = g.listeners[li].got.iter().map(|x| x.0).collect(); both.extend(g.listeners[li + 1].got.iter().map(|x| x.0));
            if both != total { viol.push(("split_not_a_partition".into(), format!("old stream #{li} + new stream #{} yielded {:?}; the log is {:?}", li + 1, both, total))); }
        } }
        // references stay valid and unchanged
        for l in &g.listeners { for (v, a) in &l.got { let now = unsafe { *(*a as *const u64) }; if now != *v { viol.push(("reference_changed".into(), format!("a reference yielded as {v} now reads {now}"))); } } }
    }
    drop(g);
    // unmap the log: streams first (they hold the channel), only if nobody was abandoned inside an operation
    if o.verdict == Verdict::Completed {
        for l in sh.lock().unwrap().listeners.iter_mut() { if let Some(mut s) = l.stream.take() { unsafe { std::mem::ManuallyDrop::drop(&mut s); } } }
        drop(ch);
    } else { std::mem::forget(ch); }
    (o, viol, cfgkey)
}

fn main() {
    let a = Args::parse();
    let seed0 = a.num("seed", 1);
    let runs = a.num("runs", 100);
    let replay_dir = a.get("replay_dir", "");
    let pid = a.get("prop", "C");
    let dir = a.get("tmp", "/verif/tmp/mmap");
    std::fs::create_dir_all(&dir).ok();
    let path = format!("{dir}/log-{}-{}.mmap", std::process::id(), seed0);
    let mut out = TraceOut::new(&a.get("trace", ""));
    let mut rep = Report::new("mmaplog");
    let single = a.kv.get("choices").map(|c| parse_choices(c));
    for i in 0..runs {
        let seed = if a.kv.contains_key("seedx") { a.num("seedx", 0) } else { seed0.wrapping_mul(1_000_003).wrapping_add(i) };
        mark_run(seed);
        let wake = a.get("sub", "") == "wake";
        let (o, viol, cfgkey) = if wake { run_wake(seed, single.clone(), &path) } else { run_one(seed, single.clone(), &path) };
        let nontrivial = if wake { o.trace.iter().any(|l| l.contains(" sm.wake ")) && o.trace.iter().filter(|l| l.starts_with("ret 1") && l.ends_with("item none")).count() > 0 }
                         else { o.trace.iter().any(|l| l.contains("subsplit") || l.contains("subnew")) && o.trace.iter().filter(|l| l.contains(" mm.p.publish ")).count() > 1 };
        rep.add_run(&o.trace, nontrivial, &cfgkey, &format!("{:?}", o.verdict));
        out.write_run(&format!("cfg model=mmaplog seed={seed} run={i}"), &o.trace);
        for (k, d) in viol {
            let header = vec![format!("cmd mmaplog{} runs=1 seedx={seed} choices={}", if wake { " sub=wake" } else { "" }, choices_str(&o.choices)), format!("violation {k}: {d}")];
            let p = write_replay(&replay_dir, &format!("{pid}-mmaplog-seed{seed}-{k}"), &header, &o.trace);
            rep.violations.push(Violation { run: i, seed, kind: k, detail: d, replay: p });
        }
    }
    std::fs::remove_file(&path).ok();
    out.finish();
    rep.print();
}
