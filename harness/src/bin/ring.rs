//! Scenario `ring`: the two raw ring buffers (`AtomicMove`, `FullSyncMove`) under the baton scheduler.
//!
//!   ring kind=atomic|fullsync sub=mixed|rsv n=2|4|8 seed=<s> runs=<r> trace=<file> replay_dir=<dir> [choices=<digits>] [pct=1]
//!
//! * `mixed`: 1-3 producers (plain sends; on `atomic` also reserve+fill+publish-by-index), 1-2 consumers, a length reader;
//!            then a finalizer drains the ring and checks that exactly N sends are accepted again  (C01, C02, C16, C15)
//! * `rsv`  : one producer-side thread issuing a random history of reserve / fill / publish-by-index / cancel-by-index /
//!            plain send (only with no reservation outstanding), 1-2 concurrent consumers, finalizer as above   (C08)
//!
//! * `diff` : the same sequential history from several sequence origins must answer alike (C15); plus teardown with leftovers
//!            (payloads with a counted destructor) from every origin, including the one at which `tail` wraps and `head` does not
//!
//! The trace goes to the Lean replay driver (step-level correspondence with models M1 / M2); the oracle below judges the
//! implementation's observable results on their own.

use std::sync::{Arc, Mutex, atomic::{AtomicUsize, Ordering::SeqCst}};
use reactive_mutiny::ogre_std::ogre_queues::{
    atomic::atomic_move::AtomicMove, full_sync::full_sync_move::FullSyncMove,
    meta_container::MoveContainer, meta_publisher::MovePublisher, meta_subscriber::MoveSubscriber,
};
use vh::sched::{self, Body, Config, Verdict};
use vh::util::*;

trait RingApi: Send + Sync {
    fn send(&self, v: u32) -> Option<u32>;
    fn recv(&self) -> Option<u32>;
    fn len(&self) -> usize;
    fn reserve(&self) -> Option<(u32, u32)> { unimplemented!() }
    fn fill(&self, _idx: u32, _v: u32) { unimplemented!() }
    fn pubidx(&self, _idx: u32) -> Option<u32> { unimplemented!() }
    fn canidx(&self, _idx: u32) -> bool { unimplemented!() }
    fn rebase(&self, _origin: u32) {}
}

impl<const N: usize> RingApi for AtomicMove<u32, N> {
    fn send(&self, v: u32) -> Option<u32> { self.publish_movable(v).0.map(|l| l.get()) }
    fn recv(&self) -> Option<u32> { self.consume_movable() }
    fn len(&self) -> usize { self.available_elements_count() }
    fn reserve(&self) -> Option<(u32, u32)> {
        self.leak_slot_internal(|| false).map(|(slot, _id, len_before)| (self.slot_index_from_slot_ref(slot), len_before))
    }
    #[allow(invalid_reference_casting)]
    fn fill(&self, idx: u32, v: u32) { unsafe { let p = self.slot_ref_from_slot_index(idx) as *const u32 as usize as *mut u32; std::ptr::write(p, v) } }
    fn pubidx(&self, idx: u32) -> Option<u32> { self.try_publish_leaked_internal_index(idx).map(|l| l.get()) }
    fn canidx(&self, idx: u32) -> bool { self.try_unleak_slot_index_internal(idx) }
    fn rebase(&self, origin: u32) { self.verif_rebase(origin) }
}
impl<const N: usize> RingApi for FullSyncMove<u32, N> {
    fn send(&self, v: u32) -> Option<u32> { self.publish_movable(v).0.map(|l| l.get()) }
    fn recv(&self) -> Option<u32> { self.consume_movable() }
    fn len(&self) -> usize { self.available_elements_count() }
    fn rebase(&self, origin: u32) { self.verif_rebase(origin) }
}

fn make(kind: &str, n: usize) -> Arc<dyn RingApi> {
    match (kind, n) {
        ("atomic", 2) => Arc::new(AtomicMove::<u32, 2>::new()),
        ("atomic", 4) => Arc::new(AtomicMove::<u32, 4>::new()),
        ("atomic", 8) => Arc::new(AtomicMove::<u32, 8>::new()),
        ("fullsync", 2) => Arc::new(FullSyncMove::<u32, 2>::new()),
        ("fullsync", 4) => Arc::new(FullSyncMove::<u32, 4>::new()),
        ("fullsync", 8) => Arc::new(FullSyncMove::<u32, 8>::new()),
        _ => panic!("unsupported kind/n"),
    }
}

/// a payload whose destructor is counted (the ring's own default-initialised slots carry no counter)
#[derive(Debug, Default)]
struct Counted(Option<Arc<AtomicUsize>>);
impl Drop for Counted { fn drop(&mut self) { if let Some(c) = &self.0 { c.fetch_add(1, SeqCst); } } }

/// teardown with leftovers (C15 / C05): from sequence origin `origin`, `cycles` send+receive pairs, then `left` sends, then the
/// ring is dropped.  Returns (accepted sends, destructor runs once the ring is gone) -- every accepted payload must have been
/// destroyed exactly once by then, wherever the counters are
fn teardown_counts(kind: &str, n: usize, origin: u32, cycles: usize, left: usize) -> (usize, usize) {
    fn go<Q: MovePublisher<Counted> + MoveSubscriber<Counted>>(q: Q, rebase: impl Fn(&Q), cycles: usize, left: usize) -> (usize, usize) {
        let drops = Arc::new(AtomicUsize::new(0));
        rebase(&q);
        let mut accepted = 0;
        for _ in 0..cycles { if q.publish_movable(Counted(Some(drops.clone()))).0.is_some() { accepted += 1 } drop(q.consume_movable()); }
        for _ in 0..left { if q.publish_movable(Counted(Some(drops.clone()))).0.is_some() { accepted += 1 } }
        drop(q);
        (accepted, drops.load(SeqCst))
    }
    match (kind, n) {
        ("atomic", 2) => go(AtomicMove::<Counted, 2>::new(), |q| q.verif_rebase(origin), cycles, left),
        ("atomic", 4) => go(AtomicMove::<Counted, 4>::new(), |q| q.verif_rebase(origin), cycles, left),
        ("atomic", 8) => go(AtomicMove::<Counted, 8>::new(), |q| q.verif_rebase(origin), cycles, left),
        ("fullsync", 2) => go(FullSyncMove::<Counted, 2>::new(), |q| q.verif_rebase(origin), cycles, left),
        ("fullsync", 4) => go(FullSyncMove::<Counted, 4>::new(), |q| q.verif_rebase(origin), cycles, left),
        ("fullsync", 8) => go(FullSyncMove::<Counted, 8>::new(), |q| q.verif_rebase(origin), cycles, left),
        _ => panic!("unsupported kind/n"),
    }
}

#[derive(Clone, Debug)]
struct Ev { ltid: usize, op: &'static str, arg: u32, call: usize, ret: usize, res: String }

#[derive(Clone, Debug)]
enum Op { Send(u32), RsvPub(u32) }

fn filter_atomic(tag: &str) -> bool { tag.starts_with("am.") }
fn filter_fullsync(tag: &str) -> bool { tag.starts_with("fs.") || tag.starts_with("sync.") }

struct RunOut { outcome: sched::Outcome, evs: Vec<Ev>, cfgkey: String }

fn do_send(ctx: &sched::Ctx, q: &dyn RingApi, evs: &Mutex<Vec<Ev>>, ltid: usize, v: u32) -> bool {
    let c = ctx.call(ltid, &format!("send {v}"));
    let r = q.send(v);
    let res = match r { Some(l) => format!("sent {l}"), None => "full".into() };
    let p = ctx.ret(&res);
    evs.lock().unwrap().push(Ev { ltid, op: "send", arg: v, call: c, ret: p, res });
    r.is_some()
}
fn do_recv(ctx: &sched::Ctx, q: &dyn RingApi, evs: &Mutex<Vec<Ev>>, ltid: usize) -> Option<u32> {
    let c = ctx.call(ltid, "recv");
    let r = q.recv();
    let res = match r { Some(v) => format!("got {v}"), None => "empty".into() };
    let p = ctx.ret(&res);
    evs.lock().unwrap().push(Ev { ltid, op: "recv", arg: r.unwrap_or(0), call: c, ret: p, res });
    r
}
fn do_len(ctx: &sched::Ctx, q: &dyn RingApi, evs: &Mutex<Vec<Ev>>, ltid: usize) {
    let c = ctx.call(ltid, "len");
    let r = q.len();
    let res = format!("len {r}");
    let p = ctx.ret(&res);
    evs.lock().unwrap().push(Ev { ltid, op: "len", arg: r as u32, call: c, ret: p, res });
}
/// reserve; returns the slot index when admitted
fn do_reserve(ctx: &sched::Ctx, q: &dyn RingApi, evs: &Mutex<Vec<Ev>>, ltid: usize) -> Option<u32> {
    let c = ctx.call(ltid, "reserve");
    let r = q.reserve();
    let res = match r { Some((idx, lb)) => format!("reserved {idx} {lb}"), None => "full".into() };
    let p = ctx.ret(&res);
    evs.lock().unwrap().push(Ev { ltid, op: "reserve", arg: 0, call: c, ret: p, res });
    r.map(|x| x.0)
}
fn do_fill(ctx: &sched::Ctx, q: &dyn RingApi, ltid: usize, idx: u32, v: u32) {
    ctx.call(ltid, &format!("fill {v}"));
    q.fill(idx, v);
}
fn do_pubidx(ctx: &sched::Ctx, q: &dyn RingApi, evs: &Mutex<Vec<Ev>>, ltid: usize, idx: u32, v: u32) -> bool {
    let c = ctx.call(ltid, "pubidx");
    let r = q.pubidx(idx);
    let res = match r { Some(l) => format!("pubidx {l}"), None => "pubidx none".into() };
    let p = ctx.ret(&res);
    evs.lock().unwrap().push(Ev { ltid, op: "pubidx", arg: v, call: c, ret: p, res });
    r.is_some()
}
fn do_canidx(ctx: &sched::Ctx, q: &dyn RingApi, evs: &Mutex<Vec<Ev>>, ltid: usize, idx: u32) -> bool {
    let c = ctx.call(ltid, "canidx");
    let r = q.canidx(idx);
    let res = format!("canidx {r}");
    let p = ctx.ret(&res);
    evs.lock().unwrap().push(Ev { ltid, op: "canidx", arg: 0, call: c, ret: p, res });
    r
}

/// the finalizer: waits for everybody, drains, then checks that exactly N events are accepted again
fn finalizer(ctx: &sched::Ctx, q: &dyn RingApi, evs: &Mutex<Vec<Ev>>, ltid: usize, n: usize, done: Arc<AtomicUsize>, others: usize) {
    ctx.block_until(Box::new(move || done.load(SeqCst) == others));
    let mut drained = vec![];
    // what the implementation says is pending, before draining (compared with the model's abstract queue)
    while let Some(v) = do_recv(ctx, q, evs, ltid) { drained.push(v); }
    ctx.note(format!("obs abs"));
    do_len(ctx, q, evs, ltid);
    let mut accepted = 0;
    for i in 0..n + 1 { if do_send(ctx, q, evs, ltid, 900_000 + i as u32) { accepted += 1 } }
    ctx.note(format!("refill {accepted}"));
    do_len(ctx, q, evs, ltid);
    ctx.note(format!("obs len {}", accepted));
}

fn run_one(kind: &str, sub: &str, n: usize, seed: u64, origin: u32, replay: Option<Vec<u8>>, pct: bool) -> RunOut { run_one_m(kind, sub, n, seed, origin, replay, pct, false) }
/// `m32`: the trace is replayed on the u32 model `Ring32`, whose step counts do not depend on the origin
fn run_one_m(kind: &str, sub: &str, n: usize, seed: u64, origin: u32, replay: Option<Vec<u8>>, pct: bool, m32: bool) -> RunOut {
    let q = make(kind, n);
    if origin != 0 { q.rebase(origin); }
    let mut rng = Rng::new(seed ^ 0xA5A5_0000);
    let evs: Arc<Mutex<Vec<Ev>>> = Arc::new(Mutex::new(vec![]));
    let done = Arc::new(AtomicUsize::new(0));
    let mut bodies: Vec<Body> = vec![];
    let mut cfgkey = format!("{kind}/{sub}/N{n}");
    if sub == "mixed" {
        let np = rng.range(1, 3) as usize;
        let nc = rng.range(1, 2) as usize;
        let nl = rng.below(2) as usize;
        cfgkey += &format!("/p{np}c{nc}l{nl}");
        for p in 0..np {
            let nops = rng.range(1, n as u64 + 2) as usize;
            let ops: Vec<Op> = (0..nops).map(|i| {
                let v = (p as u32 + 1) * 1000 + i as u32;
                // index-based publication re-guesses the lap from the absolute counters: its *step count* (not its result)
                // depends on the origin, so the step-level comparison with the origin-free model is done at origin 0 only
                if kind == "atomic" && (origin == 0 || m32) && rng.chance(1, 4) { Op::RsvPub(v) } else { Op::Send(v) }
            }).collect();
            let (q, evs, done) = (q.clone(), evs.clone(), done.clone());
            bodies.push(Box::new(move |ctx| {
                let me = ctx.tid();
                for op in ops {
                    match op {
                        Op::Send(v) => { do_send(ctx, &*q, &evs, me, v); }
                        Op::RsvPub(v) => {
                            if let Some(idx) = do_reserve(ctx, &*q, &evs, me) {
                                do_fill(ctx, &*q, me, idx, v);
                                while !do_pubidx(ctx, &*q, &evs, me, idx, v) {}
                            }
                        }
                        _ => {}
                    }
                }
                done.fetch_add(1, SeqCst);
            }));
        }
        for _c in 0..nc {
            let nops = rng.range(1, n as u64 + 3) as usize;
            let (q, evs, done) = (q.clone(), evs.clone(), done.clone());
            bodies.push(Box::new(move |ctx| {
                let me = ctx.tid();
                for _ in 0..nops { do_recv(ctx, &*q, &evs, me); }
                done.fetch_add(1, SeqCst);
            }));
        }
        for _l in 0..nl {
            let (q, evs, done) = (q.clone(), evs.clone(), done.clone());
            bodies.push(Box::new(move |ctx| {
                let me = ctx.tid();
                for _ in 0..2 { do_len(ctx, &*q, &evs, me); }
                done.fetch_add(1, SeqCst);
            }));
        }
    } else {
        // sub == "rsv": one producer-side thread, history of reservation operations
        let nc = if sub == "seq" { 0 } else { rng.range(1, 2) as usize };
        let hist_len = rng.range(3, 14) as usize + if sub == "seq" { 6 } else { 0 };
        let inline_recv = sub == "seq";
        let atomic_kind = kind == "atomic";
        cfgkey += &format!("/c{nc}h{}", hist_len / 4);
        let mut hrng = Rng::new(seed ^ 0x5151);
        {
            let (q, evs, done) = (q.clone(), evs.clone(), done.clone());
            bodies.push(Box::new(move |ctx| {
                // stack of outstanding reservations: (logical thread, slot index, filled value)
                let mut stack: Vec<(usize, u32, u32)> = vec![];
                let mut next_l = 10usize;
                let mut next_v = 1000u32;
                for _ in 0..hist_len {
                    if inline_recv && hrng.chance(1, 3) { do_recv(ctx, &*q, &evs, 1); if hrng.chance(1, 2) { do_len(ctx, &*q, &evs, 1); } continue }
                    match if atomic_kind { hrng.below(6) } else { 5 } {
                        0 | 1 => {
                            let l = next_l; next_l += 1;
                            if let Some(idx) = do_reserve(ctx, &*q, &evs, l) { stack.push((l, idx, 0)); }
                        }
                        2 if !stack.is_empty() => {
                            let i = hrng.below(stack.len() as u64) as usize;
                            next_v += 1; stack[i].2 = next_v;
                            do_fill(ctx, &*q, stack[i].0, stack[i].1, next_v);
                        }
                        3 if !stack.is_empty() => {
                            // publish any outstanding reservation (only the oldest can succeed)
                            let i = hrng.below(stack.len() as u64) as usize;
                            if stack[i].2 == 0 { next_v += 1; stack[i].2 = next_v; do_fill(ctx, &*q, stack[i].0, stack[i].1, next_v); }
                            let (l, idx, v) = stack[i];
                            if do_pubidx(ctx, &*q, &evs, l, idx, v) { stack.remove(i); }
                        }
                        4 if !stack.is_empty() => {
                            // cancel: mostly the newest (documented order), sometimes another one (must answer false)
                            let i = if hrng.chance(3, 4) { stack.len() - 1 } else { hrng.below(stack.len() as u64) as usize };
                            let (l, idx, _v) = stack[i];
                            if do_canidx(ctx, &*q, &evs, l, idx) { stack.remove(i); }
                        }
                        _ => {
                            if stack.is_empty() { next_v += 1; do_send(ctx, &*q, &evs, 0, next_v); }
                        }
                    }
                }
                // resolve what is outstanding: newest first by cancel, or oldest first by publication
                while !stack.is_empty() {
                    if hrng.chance(1, 2) {
                        let (l, idx, _v) = *stack.last().unwrap();
                        if do_canidx(ctx, &*q, &evs, l, idx) { stack.pop(); continue }
                    }
                    if stack[0].2 == 0 { next_v += 1; stack[0].2 = next_v; do_fill(ctx, &*q, stack[0].0, stack[0].1, next_v); }
                    let (l, idx, v) = stack[0];
                    if do_pubidx(ctx, &*q, &evs, l, idx, v) { stack.remove(0); }
                }
                done.fetch_add(1, SeqCst);
            }));
        }
        for _c in 0..nc {
            let nops = rng.range(1, 6) as usize;
            let (q, evs, done) = (q.clone(), evs.clone(), done.clone());
            bodies.push(Box::new(move |ctx| {
                let me = ctx.tid();
                for _ in 0..nops { do_recv(ctx, &*q, &evs, me); }
                done.fetch_add(1, SeqCst);
            }));
        }
    }
    let others = bodies.len();
    {
        let (q, evs, done) = (q.clone(), evs.clone(), done.clone());
        bodies.push(Box::new(move |ctx| { let me = ctx.tid(); finalizer(ctx, &*q, &evs, me + 50, n, done, others) }));
    }
    let mut cfg = Config::new(seed, if kind == "atomic" { filter_atomic } else { filter_fullsync });
    cfg.replay = replay;
    cfg.pct = pct;
    let outcome = sched::run(cfg, bodies);
    let evs = evs.lock().unwrap().clone();
    // a ring wedged by an aborted run must not be dropped (its destructor would spin): leak it
    if outcome.verdict != Verdict::Completed { std::mem::forget(q); }
    RunOut { outcome, evs, cfgkey }
}

/// implementation-side oracle: judges the observable results only (no model involved)
fn oracle(n: usize, out: &RunOut) -> Vec<(String, String)> {
    let mut v = vec![];
    let evs = &out.evs;
    if out.outcome.verdict != Verdict::Completed {
        v.push(("no_progress".into(), format!("the run ended with verdict {:?}: some operation never returned", out.outcome.verdict)));
        return v;
    }
    for (i, p) in out.outcome.panics.iter().enumerate() {
        if let Some(m) = p { v.push(("panic".into(), format!("thread {i} panicked: {m}"))); }
    }
    // accepted values, in order of completion
    let mut accepted: Vec<(u32, usize, usize, usize)> = vec![];   // (value, producer, call, ret)
    for e in evs {
        if (e.op == "send" && e.res.starts_with("sent")) || (e.op == "pubidx" && e.res != "pubidx none") { accepted.push((e.arg, e.ltid, e.call, e.ret)); }
    }
    let got: Vec<&Ev> = evs.iter().filter(|e| e.op == "recv" && e.res.starts_with("got")).collect();
    // (1) nothing invented, nothing twice
    let mut seen = std::collections::HashMap::new();
    for g in &got {
        if !accepted.iter().any(|a| a.0 == g.arg) { v.push(("invented".into(), format!("thread {} received {} which no accepted send carried", g.ltid, g.arg))); }
        if let Some(prev) = seen.insert(g.arg, g.ltid) { v.push(("duplicate".into(), format!("value {} received twice (threads {} and {})", g.arg, prev, g.ltid))); }
    }
    // (2) nothing lost: the finalizer drained the ring, so every accepted value must have been received by somebody
    for a in &accepted {
        if a.0 < 900_000 && !seen.contains_key(&a.0) { v.push(("lost".into(), format!("value {} was accepted but never received, although the ring was drained", a.0))); }
    }
    // (3) FIFO: for two values accepted one-after-the-other in real time, received by one thread, order is preserved;
    //     and in general a value accepted strictly before another is never received strictly after it
    for a in &accepted { for b in &accepted {
        if a.3 < b.2 {   // a's send returned before b's send was called
            let ga = got.iter().find(|g| g.arg == a.0); let gb = got.iter().find(|g| g.arg == b.0);
            if let (Some(ga), Some(gb)) = (ga, gb) {
                if gb.ret < ga.call { v.push(("fifo".into(), format!("{} was accepted before {} but received strictly after it", a.0, b.0))); }
            }
        }
    }}
    // (4) an `empty` answer needs an instant of the call at which nothing was pending:
    //     E = sends completed before the call, D = successful receives started before the return; E > D => never empty
    //     (exact form: at EVERY instant tau of the call, more sends had already returned than successful receives had been called)
    for e in evs.iter().filter(|e| e.op == "recv" && e.res == "empty") {
        let en = accepted.iter().filter(|a| a.3 < e.call).count();
        let dn = got.iter().filter(|g| g.call < e.ret).count();
        if en > dn { v.push(("empty_while_pending".into(), format!("thread {} was answered `empty` (trace lines {}..{}) although {} accepted events were completed before the call and only {} receives had started before its return", e.ltid, e.call, e.ret, en, dn))); }
        else if (e.call..=e.ret).all(|tau| accepted.iter().filter(|a| a.3 < tau).count() > got.iter().filter(|g| g.call < tau).count()) {
            v.push(("empty_while_pending".into(), format!("thread {} was answered `empty` (trace lines {}..{}) although at every instant of that call more sends had returned `accepted` than successful receives had been called: the queue was never empty during the call", e.ltid, e.call, e.ret)));
        }
    }
    // (5) a `full` answer needs an instant at which all N slots were taken (by accepted-unreceived events, reservations or
    //     sends in progress): S = producer-side claims started before the return and not finished-as-rejected/cancelled
    //     before the call; R = receives completed before the call
    for e in evs.iter().filter(|e| (e.op == "send" || e.op == "reserve") && e.res == "full") {
        let mut s = 0usize;
        for o in evs.iter().filter(|o| (o.op == "send" || o.op == "reserve") && o.call < e.ret && !std::ptr::eq(*o, e)) {
            let rejected_before = o.res == "full" && o.ret < e.call;
            if !rejected_before { s += 1 }
        }
        // cancelled reservations completed before the call free their slot
        let cancelled = evs.iter().filter(|o| o.op == "canidx" && o.res == "canidx true" && o.ret < e.call).count();
        let r = got.iter().filter(|g| g.ret < e.call).count();
        if s < n + r + cancelled { v.push(("full_while_room".into(), format!("thread {} was answered `full` (trace lines {}..{}) although at most {} claims minus {} receives minus {} cancellations = fewer than N={} slots can have been taken", e.ltid, e.call, e.ret, s, r, cancelled, n))); }
    }
    // (6) length answers stay within [0, N]
    // a length query is two plain loads (`tail`, then `head`): while a receive by another thread overlaps it, `head` may pass the
    // `tail` loaded before and the difference wraps -- no property speaks about such a racing query; every other one must be <= N
    for e in evs.iter().filter(|e| e.op == "len") {
        let raced = evs.iter().any(|r| r.op == "recv" && r.ltid != e.ltid && r.call < e.ret && e.call < r.ret);
        if e.arg as usize > n && !raced { v.push(("len_out_of_range".into(), format!("length {} reported with N={} (no receive overlapped the query)", e.arg, n))); }
    }
    // (7) capacity restored: the drained ring accepts exactly N events
    for l in &out.outcome.trace { if let Some(k) = l.strip_prefix("refill ") { if k.parse::<usize>().ok() != Some(n) { v.push(("capacity_not_restored".into(), format!("after draining, {} of {} sends were accepted (expected exactly N={})", k, n + 1, n))); } } }
    v
}

fn main() {
    let a = Args::parse();
    let kind = a.get("kind", "atomic");
    let sub = a.get("sub", "mixed");
    let seed0 = a.num("seed", 1);
    let runs = a.num("runs", 100);
    let replay_dir = a.get("replay_dir", "");
    let ns: Vec<usize> = a.get("n", "2,4,8").split(',').map(|x| x.parse().unwrap()).collect();
    let origins: Vec<u32> = a.get("origins", "0").split(',').map(|x| x.parse::<i64>().unwrap() as u32).collect();
    let pid = a.get("prop", "C");
    let mut out = TraceOut::new(&a.get("trace", ""));
    let mut rep = Report::new(&format!("ring/{kind}/{sub}"));
    let single = a.kv.get("choices").map(|c| parse_choices(c));
    if sub == "diff" {
        // C15: the same sequential history (send / receive / reserve / fill / publish-by-index / cancel-by-index / length)
        // replayed from every origin must answer exactly as from origin 0
        for i in 0..runs {
            let seed = if a.kv.contains_key("seedx") { a.num("seedx", 0) } else { seed0.wrapping_mul(1_000_003).wrapping_add(i) };
            mark_run(seed);
            let n = ns[(i as usize) % ns.len()];
            let base = run_one(&kind, "seq", n, seed, 0, None, false);
            let rets = |r: &RunOut| -> Vec<String> { r.outcome.trace.iter().filter(|l| l.starts_with("ret ") || l.starts_with("panic ") || l.starts_with("refill ")).cloned().collect() };
            let b = rets(&base);
            let mut all = base.outcome.trace.clone();
            let mut viol = oracle(n, &base);
            for &o in origins.iter().filter(|o| **o != 0) {
                let o = o - (o % n as u32);
                let r = run_one(&kind, "seq", n, seed, o, None, false);
                let x = rets(&r);
                if x != b {
                    let k = (0..b.len().min(x.len())).find(|&k| b[k] != x[k]).unwrap_or(b.len().min(x.len()));
                    viol.push(("origin_dependent".into(), format!("history answers differently from sequence origin {o} than from origin 0: result #{k} is `{}` vs `{}` (N={n}, {} results)", x.get(k).cloned().unwrap_or("<missing>".into()), b.get(k).cloned().unwrap_or("<missing>".into()), b.len())));
                    all.push(format!("--- origin {o} ---")); all.extend(r.outcome.trace.clone());
                }
                for (k, d) in oracle(n, &r) { viol.push((k, format!("(origin {o}) {d}"))); }
            }
            // teardown with leftovers: a ring dropped while it buffers events destroys each of them exactly once, from any origin --
            // in particular when `tail` has wrapped and `head` has not (origin 2^32 - N, more than N - cycles events buffered)
            {
                let mut trng = Rng::new(seed ^ 0x7EA2);
                let cycles = trng.below(n as u64) as usize;
                let left = 1 + trng.below(n as u64) as usize;
                let base_td = teardown_counts(&kind, n, 0, cycles, left);
                all.push(format!("teardown origin=0 cycles={cycles} leftovers={left} accepted={} destroyed={}", base_td.0, base_td.1));
                if base_td.0 != base_td.1 { viol.push(("teardown_leftovers_not_destroyed".into(), format!("ring of {n} dropped with {left} buffered event(s) after {cycles} send+receive cycle(s): {} payloads were accepted, {} destructors had run once the ring was gone", base_td.0, base_td.1))); }
                let wrap_origin = 0u32.wrapping_sub(n as u32);
                for o in origins.iter().filter(|o| **o != 0).map(|o| o - (o % n as u32)).chain(std::iter::once(wrap_origin)) {
                    let td = teardown_counts(&kind, n, o, cycles, left);
                    all.push(format!("teardown origin={o} cycles={cycles} leftovers={left} accepted={} destroyed={}", td.0, td.1));
                    if td != base_td { viol.push(("origin_dependent".into(), format!("teardown with leftovers answers differently from sequence origin {o} than from origin 0: ring of {n} dropped with {left} buffered event(s) after {cycles} cycle(s): accepted / destroyed = {} / {} vs {} / {}", td.0, td.1, base_td.0, base_td.1))); }
                }
            }
            let nontrivial = b.iter().any(|l| l.contains("pubidx") || l.contains("canidx"));
            rep.add_run(&base.outcome.trace, nontrivial, &format!("{kind}/diff/N{n}"), "Completed");
            for (k, d) in viol {
                let header = vec![format!("cmd ring kind={kind} sub=diff n={n} origins={} runs=1 seedx={seed}", a.get("origins", "0")), format!("violation {k}: {d}")];
                let path = write_replay(&replay_dir, &format!("{pid}-{kind}-diff-seed{seed}-{k}"), &header, &all);
                rep.violations.push(Violation { run: i, seed, kind: k, detail: d, replay: path });
            }
        }
        rep.print();
        return
    }
    for i in 0..runs {
        let seed = if a.kv.contains_key("seedx") { a.num("seedx", 0) } else { seed0.wrapping_mul(1_000_003).wrapping_add(i) };
        mark_run(seed);
        let n = ns[(i as usize) % ns.len()];
        let origin = origins[(i as usize / ns.len()) % origins.len()];
        let origin = origin - (origin % n as u32);
        let pct = a.num("pct", 0) == 1 || (a.num("pct", 0) == 2 && i % 2 == 1);
        let m32 = a.num("model32", 0) == 1;
        let r = run_one_m(&kind, &sub, n, seed, origin, single.clone(), pct, m32);
        let model = match (m32, kind == "atomic") { (true, true) => "ring32", (true, false) => "lockring32", (false, true) => "ring", _ => "lockring" };
        let cfg = format!("cfg model={model} N={n} seed={seed} run={i} origin={origin} sub={sub}");
        // the finalizer's `obs abs` line is completed here with what it drained
        let mut trace = r.outcome.trace.clone();
        // values drained by the finalizer = its `got` results up to the `obs abs` marker
        if let Some(pos) = trace.iter().position(|l| l == "obs abs") {
            // the model compares its abstract queue *at this point* (empty, since the drain loop ended on `empty`)
            trace[pos] = "obs abs".to_string();
        }
        let viol = oracle(n, &r);
        let nontrivial = trace.iter().any(|l| l.contains(" am.p.recede ") || l.contains(" am.c.recede ") || l.contains(" sync.spin ") || l.starts_with("ret") && (l.ends_with(" full") || l.ends_with(" empty")));
        let verdict = format!("{:?}", r.outcome.verdict);
        rep.add_run(&trace, nontrivial, &r.cfgkey, &verdict);
        if origin == 0 || sub == "mixed" || m32 { out.write_run(&cfg, &trace); }
        for (k, d) in viol {
            let name = format!("{pid}-{kind}-{sub}-seed{seed}-{k}");
            let header = vec![
                format!("# replay: vh ring kind={kind} sub={sub} n={n} origins={origin} seed={seed0} runs=... (run {i}); or choices below"),
                format!("cmd ring kind={kind} sub={sub} n={n} origins={origin}{} runs=1 seedx={seed} choices={}", if m32 { " model32=1" } else { "" }, choices_str(&r.outcome.choices)),
                format!("violation {k}: {d}"),
                cfg.clone(),
            ];
            let path = write_replay(&replay_dir, &name, &header, &trace);
            rep.violations.push(Violation { run: i, seed, kind: k, detail: d, replay: path });
        }
    }
    out.finish();
    rep.print();
}
