//! Scenarios `misc`: the small stand-alone pieces under the baton scheduler
//!   misc sub=incavg   : AtomicIncrementalAverage64, 2-3 recording threads + 1 reading thread            (C19)
//!   misc sub=stack    : non-blocking atomic-flag stack, 2-4 threads pushing / popping                    (C18)
//!   misc sub=plstack  : parking-lot stack (whole operations are the scheduling unit)                     (C18)
//!   misc sub=freerun  : both stacks and both non-blocking queues on free-running OS threads (no scheduler), conservation oracle (C18 thorough)

use std::sync::{Arc, Mutex, atomic::{AtomicUsize, Ordering::SeqCst}};
use reactive_mutiny::verif::AtomicIncrementalAverage64;
use reactive_mutiny::ogre_std::ogre_stacks::{OgreStack, non_blocking_atomic_stack, non_blocking_parking_lot_stack};
use vh::sched::{self, Body, Config, Verdict};
use vh::util::*;

fn filter_ia(tag: &str) -> bool { tag.starts_with("ia.") }
fn filter_st(tag: &str) -> bool { tag.starts_with("st.") || tag.starts_with("pl.") }

// ---------------------------------------------------------------------------------------------------------------- incavg

fn run_incavg(seed: u64, replay: Option<Vec<u8>>) -> (sched::Outcome, Vec<(String, String)>, String) {
    let avg = Arc::new(AtomicIncrementalAverage64::new());
    let mut rng = Rng::new(seed ^ 0x1A);
    let nrec = rng.range(2, 3) as usize;
    let cfgkey = format!("incavg/r{nrec}");
    let recorded: Arc<Mutex<Vec<f32>>> = Arc::new(Mutex::new(vec![]));
    let probes: Arc<Mutex<Vec<(u32, f32, usize)>>> = Arc::new(Mutex::new(vec![]));
    let done = Arc::new(AtomicUsize::new(0));
    let mut bodies: Vec<Body> = vec![];
    for t in 0..nrec {
        let n = rng.range(1, 5) as usize;
        let xs: Vec<f32> = (0..n).map(|_| match rng.below(5) { 0 => -1.0, 1 => 0.0, _ => (rng.below(20000) as f32) / 8.0 }).collect();
        let (avg, recorded, done) = (avg.clone(), recorded.clone(), done.clone());
        bodies.push(Box::new(move |ctx| {
            for x in xs {
                ctx.call(t, &format!("inc {}", x.to_bits()));
                avg.inc(x);
                recorded.lock().unwrap().push(x);
                ctx.ret("unit");
            }
            done.fetch_add(1, SeqCst);
        }));
    }
    {
        let (avg, probes, recorded) = (avg.clone(), probes.clone(), recorded.clone());
        let n = rng.range(1, 4);
        bodies.push(Box::new(move |ctx| {
            let me = ctx.tid();
            for _ in 0..n {
                ctx.call(me, "probe");
                let (c, a) = avg.probe();
                let completed = recorded.lock().unwrap().len();
                probes.lock().unwrap().push((c, a, completed));
                ctx.ret(&format!("probed {c} {}", a.to_bits()));
            }
        }));
    }
    {
        // final reading after everybody finished
        let (avg, probes, recorded, done) = (avg.clone(), probes.clone(), recorded.clone(), done.clone());
        bodies.push(Box::new(move |ctx| {
            let me = ctx.tid();
            let d2 = done.clone();
            ctx.block_until(Box::new(move || d2.load(SeqCst) == nrec));
            ctx.call(me, "probe");
            let (c, a) = avg.probe();
            probes.lock().unwrap().push((c, a, recorded.lock().unwrap().len()));
            ctx.ret(&format!("probed {c} {}", a.to_bits()));
            ctx.note(format!("final {c}"));
        }));
    }
    let mut cfg = Config::new(seed, filter_ia);
    cfg.replay = replay;
    let o = sched::run(cfg, bodies);
    let mut viol = vec![];
    if o.verdict != Verdict::Completed { viol.push(("no_progress".into(), format!("{:?}", o.verdict))); return (o, viol, cfgkey) }
    let rec = recorded.lock().unwrap().clone();
    let pr = probes.lock().unwrap().clone();
    let (cf, af, _) = *pr.last().unwrap();
    if cf as usize != rec.len() { viol.push(("lost_update".into(), format!("{} measurements were recorded but the counter reads {cf}", rec.len()))); }
    let mean = rec.iter().map(|x| *x as f64).sum::<f64>() / rec.len().max(1) as f64;
    if !rec.is_empty() && (af as f64 - mean).abs() > 1e-3 * mean.abs().max(1.0) { viol.push(("average_off".into(), format!("final average {af} vs arithmetic mean {mean} of {} measurements", rec.len()))); }
    // every reading is one of the pairs produced by *some* commit order prefix: count c must be between the number of
    // completed calls at probe time ... and the total; and the count never exceeds what was started
    for (c, _a, completed_before) in &pr {
        if (*c as usize) > rec.len() { viol.push(("count_too_high".into(), format!("a reading returned count {c} with only {} measurements recorded in total", rec.len()))); }
        let _ = completed_before;
    }
    (o, viol, cfgkey)
}

// ---------------------------------------------------------------------------------------------------------------- stacks

trait StackApi: Send + Sync { fn push(&self, v: u32) -> bool; fn pop(&self) -> Option<u32>; }
impl<const N: usize> StackApi for non_blocking_atomic_stack::Stack<u32, N, false, false> {
    fn push(&self, v: u32) -> bool { OgreStack::push(self, v) }
    fn pop(&self) -> Option<u32> { OgreStack::pop(self) }
}
impl<const N: usize> StackApi for non_blocking_parking_lot_stack::Stack<u32, N, false, false> {
    fn push(&self, v: u32) -> bool { OgreStack::push(self, v) }
    fn pop(&self) -> Option<u32> { OgreStack::pop(self) }
}
fn make_stack(pl: bool, n: usize) -> Arc<dyn StackApi> {
    let name = "vh".to_string();
    match (pl, n) {
        (false, 2) => Arc::new(<non_blocking_atomic_stack::Stack<u32, 2, false, false> as OgreStack<u32>>::new(name)),
        (false, 4) => Arc::new(<non_blocking_atomic_stack::Stack<u32, 4, false, false> as OgreStack<u32>>::new(name)),
        (false, _) => Arc::new(<non_blocking_atomic_stack::Stack<u32, 8, false, false> as OgreStack<u32>>::new(name)),
        (true, 2) => Arc::new(<non_blocking_parking_lot_stack::Stack<u32, 2, false, false> as OgreStack<u32>>::new(name)),
        (true, 4) => Arc::new(<non_blocking_parking_lot_stack::Stack<u32, 4, false, false> as OgreStack<u32>>::new(name)),
        (true, _) => Arc::new(<non_blocking_parking_lot_stack::Stack<u32, 8, false, false> as OgreStack<u32>>::new(name)),
    }
}

#[derive(Clone, Debug)]
struct SEv { t: usize, push: bool, v: u32, ok: bool, call: usize, ret: usize }

fn run_stack(pl: bool, n: usize, seed: u64, replay: Option<Vec<u8>>) -> (sched::Outcome, Vec<(String, String)>, String) {
    let st = make_stack(pl, n);
    let mut rng = Rng::new(seed ^ 0x57);
    let nt = rng.range(2, 4) as usize;
    let cfgkey = format!("{}stack/N{n}/t{nt}", if pl { "pl" } else { "" });
    let evs: Arc<Mutex<Vec<SEv>>> = Arc::new(Mutex::new(vec![]));
    let done = Arc::new(AtomicUsize::new(0));
    let mut bodies: Vec<Body> = vec![];
    for t in 0..nt {
        let nops = rng.range(2, n as u64 + 3) as usize;
        let ops: Vec<bool> = (0..nops).map(|_| rng.chance(3, 5)).collect();
        let (st, evs, done) = (st.clone(), evs.clone(), done.clone());
        bodies.push(Box::new(move |ctx| {
            for (i, is_push) in ops.into_iter().enumerate() {
                if is_push {
                    let v = (t as u32 + 1) * 1000 + i as u32;
                    let c = ctx.call(t, &format!("{} {v}", if pl { "plpush" } else { "push" }));
                    let ok = st.push(v);
                    let r = ctx.ret(&format!("pushed {ok}"));
                    evs.lock().unwrap().push(SEv { t, push: true, v, ok, call: c, ret: r });
                } else {
                    let c = ctx.call(t, if pl { "plpop" } else { "pop" });
                    let got = st.pop();
                    let r = ctx.ret(&match got { Some(v) => format!("popped {v}"), None => "popped none".into() });
                    evs.lock().unwrap().push(SEv { t, push: false, v: got.unwrap_or(0), ok: got.is_some(), call: c, ret: r });
                }
            }
            done.fetch_add(1, SeqCst);
        }));
    }
    {
        let (st, evs, done) = (st.clone(), evs.clone(), done.clone());
        bodies.push(Box::new(move |ctx| {
            let me = ctx.tid();
            let d2 = done.clone();
            ctx.block_until(Box::new(move || d2.load(SeqCst) == nt));
            loop {
                let c = ctx.call(me, if pl { "plpop" } else { "pop" });
                let got = st.pop();
                let r = ctx.ret(&match got { Some(v) => format!("popped {v}"), None => "popped none".into() });
                evs.lock().unwrap().push(SEv { t: me, push: false, v: got.unwrap_or(0), ok: got.is_some(), call: c, ret: r });
                if got.is_none() { break }
            }
        }));
    }
    let mut cfg = Config::new(seed, filter_st);
    cfg.replay = replay;
    let o = sched::run(cfg, bodies);
    let mut viol = vec![];
    if o.verdict != Verdict::Completed { viol.push(("no_progress".into(), format!("{:?}", o.verdict))); return (o, viol, cfgkey) }
    let evs = evs.lock().unwrap().clone();
    // conservation: pops return pushed values, each once; after the drain nothing is missing
    let pushed: Vec<u32> = evs.iter().filter(|e| e.push && e.ok).map(|e| e.v).collect();
    let popped: Vec<u32> = evs.iter().filter(|e| !e.push && e.ok).map(|e| e.v).collect();
    let mut seen = std::collections::HashSet::new();
    for p in &popped {
        if !pushed.contains(p) { viol.push(("invented".into(), format!("popped {p} which was never pushed"))); }
        if !seen.insert(*p) { viol.push(("duplicate".into(), format!("{p} popped twice"))); }
    }
    for p in &pushed { if !seen.contains(p) { viol.push(("lost".into(), format!("{p} was pushed but never popped although the stack was drained"))); } }
    // linearizability (Wing-Gong search over the observed history; histories here are <= ~24 operations)
    if evs.len() <= 26 && !linearizable(&evs, n) { viol.push(("not_linearizable".into(), format!("no bounded-LIFO linearization of the {} observed operations exists", evs.len()))); }
    (o, viol, cfgkey)
}

/// Wing-Gong: does an order of the operations exist that respects real time and is a legal bounded stack run?
fn linearizable(evs: &[SEv], cap: usize) -> bool {
    fn go(evs: &[SEv], done: &mut Vec<bool>, stack: &mut Vec<u32>, cap: usize, left: usize, memo: &mut std::collections::HashSet<(Vec<bool>, Vec<u32>)>) -> bool {
        if left == 0 { return true }
        if !memo.insert((done.clone(), stack.clone())) { return false }
        // minimal operations: not done, and no other not-done operation returned before this one was called
        for i in 0..evs.len() {
            if done[i] { continue }
            if (0..evs.len()).any(|j| !done[j] && j != i && evs[j].ret < evs[i].call) { continue }
            let e = &evs[i];
            // apply
            let ok = if e.push {
                if e.ok { if stack.len() < cap { stack.push(e.v); true } else { false } } else { stack.len() >= cap }
            } else if e.ok { if stack.last() == Some(&e.v) { stack.pop(); true } else { false } } else { stack.is_empty() };
            if ok {
                done[i] = true;
                if go(evs, done, stack, cap, left - 1, memo) { return true }
                done[i] = false;
                // undo
                if e.push && e.ok { stack.pop(); } else if !e.push && e.ok { stack.push(e.v); }
            }
        }
        false
    }
    go(evs, &mut vec![false; evs.len()], &mut vec![], cap, evs.len(), &mut std::collections::HashSet::new())
}

// ---------------------------------------------------------------------------------------------------------------- queues

trait QueueApi: Send + Sync { fn enq(&self, v: u32) -> bool; fn deq(&self) -> Option<u32>; }
macro_rules! qimpl { ($ty:ty) => { impl QueueApi for $ty {
    fn enq(&self, v: u32) -> bool { reactive_mutiny::ogre_std::ogre_queues::OgreQueue::enqueue(self, v).is_none() }
    fn deq(&self) -> Option<u32> { reactive_mutiny::ogre_std::ogre_queues::OgreQueue::dequeue(self) }
} } }
qimpl!(reactive_mutiny::ogre_std::ogre_queues::atomic::NonBlockingQueue<u32, 2>);
qimpl!(reactive_mutiny::ogre_std::ogre_queues::atomic::NonBlockingQueue<u32, 4>);
qimpl!(reactive_mutiny::ogre_std::ogre_queues::full_sync::NonBlockingQueue<u32, 2>);
qimpl!(reactive_mutiny::ogre_std::ogre_queues::full_sync::NonBlockingQueue<u32, 4>);
fn filter_q(tag: &str) -> bool { tag.starts_with("am.") || tag.starts_with("fs.") || tag.starts_with("sync.") || tag.starts_with("pa.dealloc") }

/// the two stand-alone non-blocking queues (pool + ring of ids): result-level under the scheduler (every ring hook is a
/// yield point), judged by a FIFO / emptiness / fullness oracle on the real-time order of the calls
fn run_queue(atomic: bool, n: usize, seed: u64, replay: Option<Vec<u8>>) -> (sched::Outcome, Vec<(String, String)>, String) {
    use reactive_mutiny::ogre_std::ogre_queues::{atomic::NonBlockingQueue as AQ, full_sync::NonBlockingQueue as FQ, OgreQueue};
    let q: Arc<dyn QueueApi> = match (atomic, n) {
        (true, 2) => Arc::new(<AQ<u32, 2> as OgreQueue<u32>>::new("q")), (true, _) => Arc::new(<AQ<u32, 4> as OgreQueue<u32>>::new("q")),
        (false, 2) => Arc::new(<FQ<u32, 2> as OgreQueue<u32>>::new("q")), (false, _) => Arc::new(<FQ<u32, 4> as OgreQueue<u32>>::new("q")),
    };
    let mut rng = Rng::new(seed ^ 0x51);
    let nt = rng.range(2, 4) as usize;
    let cfgkey = format!("{}queue/N{n}/t{nt}", if atomic { "atomic" } else { "fullsync" });
    let evs: Arc<Mutex<Vec<SEv>>> = Arc::new(Mutex::new(vec![]));
    let done = Arc::new(AtomicUsize::new(0));
    let mut bodies: Vec<Body> = vec![];
    for t in 0..nt {
        let nops = rng.range(2, n as u64 + 3) as usize;
        let ops: Vec<bool> = (0..nops).map(|_| rng.chance(3, 5)).collect();
        let (q, evs, done) = (q.clone(), evs.clone(), done.clone());
        bodies.push(Box::new(move |ctx| {
            for (i, is_enq) in ops.into_iter().enumerate() {
                if is_enq {
                    let v = (t as u32 + 1) * 1000 + i as u32;
                    let c = ctx.call(t, &format!("enq {v}"));
                    let ok = q.enq(v);
                    let r = ctx.ret(&format!("enq {ok}"));
                    evs.lock().unwrap().push(SEv { t, push: true, v, ok, call: c, ret: r });
                } else {
                    let c = ctx.call(t, "deq");
                    let got = q.deq();
                    let r = ctx.ret(&match got { Some(v) => format!("deq {v}"), None => "deq none".into() });
                    evs.lock().unwrap().push(SEv { t, push: false, v: got.unwrap_or(0), ok: got.is_some(), call: c, ret: r });
                }
            }
            done.fetch_add(1, SeqCst);
        }));
    }
    {
        let (q, evs, done) = (q.clone(), evs.clone(), done.clone());
        bodies.push(Box::new(move |ctx| {
            let me = ctx.tid();
            let d2 = done.clone();
            ctx.block_until(Box::new(move || d2.load(SeqCst) == nt));
            loop {
                let c = ctx.call(me, "deq");
                let got = q.deq();
                let r = ctx.ret(&match got { Some(v) => format!("deq {v}"), None => "deq none".into() });
                evs.lock().unwrap().push(SEv { t: me, push: false, v: got.unwrap_or(0), ok: got.is_some(), call: c, ret: r });
                if got.is_none() { break }
            }
            let mut acc = 0;
            for i in 0..n + 1 { ctx.call(me, &format!("enq {}", 9000 + i)); let ok = q.enq(9000 + i as u32); ctx.ret(&format!("enq {ok}")); if ok { acc += 1 } }
            ctx.note(format!("refill {acc}"));
        }));
    }
    let mut cfg = Config::new(seed, filter_q);
    cfg.replay = replay;
    let o = sched::run(cfg, bodies);
    let mut viol = vec![];
    if o.verdict != Verdict::Completed { viol.push(("no_progress".into(), format!("{:?}", o.verdict))); std::mem::forget(q); return (o, viol, cfgkey) }
    let evs = evs.lock().unwrap().clone();
    let enq: Vec<&SEv> = evs.iter().filter(|e| e.push && e.ok).collect();
    let deq: Vec<&SEv> = evs.iter().filter(|e| !e.push && e.ok).collect();
    let mut seen = std::collections::HashSet::new();
    for d in &deq {
        if !enq.iter().any(|e| e.v == d.v) { viol.push(("invented".into(), format!("dequeued {} which was never enqueued", d.v))); }
        if !seen.insert(d.v) { viol.push(("duplicate".into(), format!("{} dequeued twice", d.v))); }
    }
    for e in &enq { if !seen.contains(&e.v) { viol.push(("lost".into(), format!("{} was enqueued but never dequeued although the queue was drained", e.v))); } }
    for a in &enq { for b in &enq { if a.ret < b.call {
        if let (Some(da), Some(db)) = (deq.iter().find(|d| d.v == a.v), deq.iter().find(|d| d.v == b.v)) {
            if db.ret < da.call { viol.push(("fifo".into(), format!("{} was enqueued before {} but dequeued strictly after it", a.v, b.v))); }
        }
    } } }
    for e in evs.iter().filter(|e| !e.push && !e.ok) {
        let en = enq.iter().filter(|a| a.ret < e.call).count();
        let dn = deq.iter().filter(|d| d.call < e.ret).count();
        if en > dn { viol.push(("empty_while_pending".into(), format!("thread {} was answered `empty` (trace lines {}..{}) although {en} enqueues had completed before the call and only {dn} dequeues had started before its return", e.t, e.call, e.ret))); }
    }
    // `full` (relaxed: slots held by operations in progress count as taken): claims started before the return minus
    // dequeues completed before the call must reach the capacity
    for e in evs.iter().filter(|e| e.push && !e.ok) {
        let s = evs.iter().filter(|o| o.push && o.call < e.ret && !std::ptr::eq(*o, e) && !(!o.ok && o.ret < e.call)).count();
        // a dequeue in progress also holds a pool slot until it releases it
        let d_done = deq.iter().filter(|d| d.ret < e.call).count();
        if s < n + d_done { viol.push(("full_while_room".into(), format!("thread {} was answered `full` (trace lines {}..{}) although at most {s} enqueues minus {d_done} completed dequeues = fewer than N={n} slots can have been taken", e.t, e.call, e.ret))); }
    }
    for l in &o.trace { if let Some(k) = l.strip_prefix("refill ") { if k.parse::<usize>().ok() != Some(n) { viol.push(("capacity_not_restored".into(), format!("after draining, {k} of {} enqueues were accepted (expected exactly N={n})", n + 1))); } } }
    (o, viol, cfgkey)
}

// ---------------------------------------------------------------------------------------------------------------- free run

/// joins free-running worker threads with a watchdog: `Err(why)` if one panicked or they did not finish within `secs`
/// (threads that hang -- e.g. behind a lock left held by a thread that panicked -- are abandoned, not joined)
fn join_watchdog(hs: Vec<std::thread::JoinHandle<()>>, done: Arc<AtomicUsize>, secs: u64) -> Result<(), String> {
    let n = hs.len();
    let t0 = std::time::Instant::now();
    loop {
        if hs.iter().all(|h| h.is_finished()) { break }
        if t0.elapsed().as_secs() >= secs {
            let finished = hs.iter().filter(|h| h.is_finished()).count();
            let mut why = format!("{} of {n} threads still not finished after {secs} s ({} had completed their script)", n - finished, done.load(SeqCst));
            for h in hs { if h.is_finished() { if let Err(e) = h.join() { why += &format!("; a thread panicked: {}", panic_text(&e)); } } }
            return Err(why);
        }
        std::thread::sleep(std::time::Duration::from_millis(5));
    }
    let mut panics = vec![];
    for h in hs { if let Err(e) = h.join() { panics.push(panic_text(&e)); } }
    if panics.is_empty() { Ok(()) } else { Err(format!("{} thread(s) panicked: {}", panics.len(), panics[0])) }
}
fn panic_text(e: &Box<dyn std::any::Any + Send>) -> String {
    e.downcast_ref::<String>().cloned().or_else(|| e.downcast_ref::<&str>().map(|s| s.to_string())).unwrap_or("?".into())
}

fn free_run(seed: u64) -> Vec<(String, String)> {
    use reactive_mutiny::ogre_std::ogre_queues::{atomic::NonBlockingQueue as AQ, full_sync::NonBlockingQueue as FQ, OgreQueue};
    let mut viol = vec![];
    std::panic::set_hook(Box::new(|_| {}));
    // stacks: every capacity, 2..8 threads (small capacities keep the stack at its full / empty boundaries all the time)
    for pl in [false, true] { for (cap, threads, per) in [(2usize, 2usize, 30_000u32), (2, 4, 15_000), (4, 4, 15_000), (8, 8, 20_000)] {
        let name = format!("free-running {}stack (capacity {cap}, {threads} threads)", if pl {"parking-lot "} else {"atomic-flag "});
        let st = make_stack(pl, cap);
        let popped: Arc<Mutex<Vec<u32>>> = Arc::new(Mutex::new(vec![]));
        let pushed = Arc::new(AtomicUsize::new(0));
        let done = Arc::new(AtomicUsize::new(0));
        let hs: Vec<_> = (0..threads).map(|t| { let (st, popped, pushed, done) = (st.clone(), popped.clone(), pushed.clone(), done.clone()); std::thread::spawn(move || {
            let mut mine = vec![]; let mut r = Rng::new(seed + t as u64);
            // thread roles: mixed, or (first two threads of the 4-thread runs) only-push / only-pop bursts
            for i in 0..per { if r.chance(1, 2) { if st.push(t as u32 * 1_000_000 + i) { pushed.fetch_add(1, SeqCst); } } else if let Some(v) = st.pop() { mine.push(v) } }
            popped.lock().unwrap().extend(mine);
            done.fetch_add(1, SeqCst);
        }) }).collect();
        if let Err(why) = join_watchdog(hs, done, 20) { viol.push(("hang_or_panic".into(), format!("{name}: {why}"))); std::mem::forget(st); continue }
        let mut rest = vec![]; while let Some(v) = st.pop() { rest.push(v) }
        if rest.len() > cap { viol.push(("capacity".into(), format!("{name}: {} elements drained from a stack of capacity {cap}", rest.len()))); }
        let mut all = popped.lock().unwrap().clone(); all.extend(rest);
        let total = all.len(); all.sort(); all.dedup();
        if all.len() != total { viol.push(("duplicate".into(), format!("{name}: {} elements popped twice", total - all.len()))); }
        if total != pushed.load(SeqCst) { viol.push(("lost".into(), format!("{name}: pushed {} popped {}", pushed.load(SeqCst), total))); }
    } }
    // queues: conservation + per-producer FIFO per consumer
    macro_rules! q { ($ty:ty, $name:expr, $threads:expr, $per:expr) => {{
        let threads: usize = $threads; let per: u32 = $per;
        let q: Arc<$ty> = Arc::new(<$ty as OgreQueue<u32>>::new($name.to_string()));
        let got: Arc<Mutex<Vec<Vec<u32>>>> = Arc::new(Mutex::new(vec![]));
        let sent = Arc::new(AtomicUsize::new(0));
        let done = Arc::new(AtomicUsize::new(0));
        let hs: Vec<_> = (0..threads).map(|t| { let (q, got, sent, done) = (q.clone(), got.clone(), sent.clone(), done.clone()); std::thread::spawn(move || {
            let mut mine = vec![];
            for i in 0..per { if t % 2 == 0 { if q.enqueue(((t as u32) << 24) | i).is_none() { sent.fetch_add(1, SeqCst); } } else if let Some(v) = q.dequeue() { mine.push(v) } }
            got.lock().unwrap().push(mine);
            done.fetch_add(1, SeqCst);
        }) }).collect();
        match join_watchdog(hs, done, 20) {
            Err(why) => { viol.push(("hang_or_panic".into(), format!("free-running {} ({threads} threads): {why}", $name))); std::mem::forget(q); }
            Ok(()) => {
                let mut rest = vec![]; while let Some(v) = q.dequeue() { rest.push(v) }
                let mut g = got.lock().unwrap().clone(); g.push(rest);
                let total: usize = g.iter().map(|x| x.len()).sum();
                if total != sent.load(SeqCst) { viol.push(("lost_or_invented".into(), format!("free-running {}: enqueued {} dequeued {}", $name, sent.load(SeqCst), total))); }
                let mut all: Vec<u32> = g.iter().flatten().cloned().collect(); let n0 = all.len(); all.sort(); all.dedup();
                if all.len() != n0 { viol.push(("duplicate".into(), format!("free-running {}: {} elements dequeued twice", $name, n0 - all.len()))); }
                for seq in &g { let mut last = std::collections::HashMap::new(); for v in seq { let p = v >> 24; let i = v & 0xFFFFFF; if let Some(l) = last.insert(p, i) { if l >= i { viol.push(("fifo".into(), format!("free-running {}: producer {p}: {i} dequeued after {l} by one consumer", $name))); break } } } }
            }
        }
    }}}
    q!(AQ<u32, 2>, "atomic queue (capacity 2)", 4, 15_000);
    q!(FQ<u32, 2>, "full-sync queue (capacity 2)", 4, 15_000);
    q!(AQ<u32, 8>, "atomic queue (capacity 8)", 8, 20_000);
    q!(FQ<u32, 8>, "full-sync queue (capacity 8)", 8, 20_000);
    let _ = std::panic::take_hook();
    viol
}

fn main() {
    let a = Args::parse();
    let sub = a.get("sub", "incavg");
    let seed0 = a.num("seed", 1);
    let runs = a.num("runs", 100);
    let replay_dir = a.get("replay_dir", "");
    let pid = a.get("prop", "C");
    let mut out = TraceOut::new(&a.get("trace", ""));
    let mut rep = Report::new(&format!("misc/{sub}"));
    let single = a.kv.get("choices").map(|c| parse_choices(c));
    for i in 0..runs {
        let seed = if a.kv.contains_key("seedx") { a.num("seedx", 0) } else { seed0.wrapping_mul(1_000_003).wrapping_add(i) };
        mark_run(seed);
        if sub == "freerun" {
            let viol = free_run(seed);
            rep.add_run(&[format!("freerun {seed}")], true, "freerun", "Completed");
            for (k, d) in viol { let path = write_replay(&replay_dir, &format!("{pid}-freerun-seed{seed}-{k}"), &[format!("cmd misc sub=freerun seedx={seed}"), format!("violation {k}: {d}")], &[]); rep.violations.push(Violation { run: i, seed, kind: k, detail: d, replay: path }); }
            continue
        }
        let n = [2usize, 4, 8][(i % 3) as usize];
        let (o, viol, cfgkey) = match sub.as_str() {
            "incavg" => run_incavg(seed, single.clone()),
            "stack" => run_stack(false, n, seed, single.clone()),
            "aqueue" => run_queue(true, if n == 8 { 4 } else { n }, seed, single.clone()),
            "fqueue" => run_queue(false, if n == 8 { 4 } else { n }, seed, single.clone()),
            _ => run_stack(true, n, seed, single.clone()),
        };
        let cfg = if sub == "incavg" { format!("cfg model=incavg seed={seed} run={i}") } else { format!("cfg model=stack N={n} seed={seed} run={i}") };
        let nontrivial = match sub.as_str() {
            // a CAS that had to be retried
            "incavg" => { let mut retried = false; let mut last: std::collections::HashMap<String, bool> = Default::default(); for l in &o.trace { let w: Vec<&str> = l.split(' ').collect(); if w[0] == "pt" && w[2] == "ia.cas" { if *last.get(w[1]).unwrap_or(&false) { retried = true } last.insert(w[1].to_string(), true); } else if w[0] == "ret" { last.insert(w[1].to_string(), false); } } retried }
            _ => o.trace.iter().any(|l| l.ends_with("pushed false") || l.ends_with("popped none") || l.ends_with("enq false") || l.ends_with("deq none")) || { let mut spin = false; let mut prev: Option<&String> = None; for l in &o.trace { if l.contains(" st.swap ") { if prev == Some(l) { spin = true } } prev = Some(l); } spin },
        };
        rep.add_run(&o.trace, nontrivial, &cfgkey, &format!("{:?}", o.verdict));
        if sub == "aqueue" { out.write_run(&format!("cfg model=zerocopy N={} seed={seed} run={i}", if n == 8 { 4 } else { n }), &o.trace); }
        else if sub != "fqueue" { out.write_run(&cfg, &o.trace); }
        for (k, d) in viol {
            let header = vec![format!("cmd misc sub={sub} runs=1 seedx={seed} choices={}", choices_str(&o.choices)), format!("violation {k}: {d}"), cfg.clone()];
            let path = write_replay(&replay_dir, &format!("{pid}-{sub}-seed{seed}-{k}"), &header, &o.trace);
            rep.violations.push(Violation { run: i, seed, kind: k, detail: d, replay: path });
        }
    }
    out.finish();
    rep.print();
}
