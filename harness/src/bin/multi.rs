//! Scenario `multi`: the five queue-per-listener Multi channels under the baton scheduler.
//!
//!   multi kind=arc_atomic|arc_fullsync|arc_crossbeam|ogre_atomic|ogre_fullsync sub=fan|hist|churn seed=.. runs=.. trace=.. replay_dir=..
//!
//! * `fan`  : a fixed set of 1..MAX_STREAMS listeners, 1-2 producers, one consumer per listener (C03)
//! * `hist` : one thread, a random history of create-listener / send / receive-some / drop-listener (C10)
//! * `churn`: 2-3 listeners that exist throughout + a producer + a thread creating / dropping other listeners (C17)
//! Yield points: the stream-id bookkeeping (`sm.create.*`, `sm.drop.count|vacant`, `sm.sync.*`), the fan-out loop
//! (`sm.running`, `mc.fan.read`), `ms.poll`, `mc.drop.drain`, `sync.spin`.  Model: M6+M7 `Multi` (step-level).

use std::pin::Pin;
use std::sync::{Arc, Mutex, atomic::{AtomicUsize, Ordering::SeqCst}};
use std::task::{Context, Poll, Wake, Waker};
use futures::Stream;
use reactive_mutiny::prelude::advanced::*;
use vh::sched::{self, Body, Config, Verdict};
use vh::util::*;

struct NoWake;
impl Wake for NoWake { fn wake(self: Arc<Self>) {} }

/// a received handle, kept by the harness until it is released
trait Held: Send { fn value(&self) -> u32; fn refs(&self) -> u32; fn ident(&self) -> usize; }
impl Held for Arc<u32> { fn value(&self) -> u32 { **self } fn refs(&self) -> u32 { Arc::strong_count(self) as u32 } fn ident(&self) -> usize { Arc::as_ptr(self) as usize } }
impl<A: reactive_mutiny::ogre_std::ogre_alloc::BoundedOgreAllocator<u32> + Send + Sync> Held for OgreArc<u32, A> {
    fn value(&self) -> u32 { **self } fn refs(&self) -> u32 { self.references_count() } fn ident(&self) -> usize { &**self as *const u32 as usize } }
/// what a listener received: the value and an identity of the shared allocation
type Got = (u32, usize, Box<dyn Held>);

trait PollS: Send { fn poll(&mut self) -> Option<Got>; /// `Some(None)` = end of stream, `None` = pending
    fn poll_w(&mut self, w: &Waker) -> Option<Option<u32>>; }
trait MultiApi: Send + Sync {
    fn send(&self, v: u32) -> bool;
    /// the same event through another entry point: 1 = `send_with`, 2 = `reserve_slot` + `try_send_reserved` (where implemented),
    /// 3 = `send_with_async` with a setter that is ready at once; anything else (or unsupported) = `send`
    fn send_how(&self, v: u32, how: u32) -> bool;
    fn create(&self) -> (Box<dyn PollS>, u32);
    fn running(&self) -> u32;
    fn buffer(&self) -> usize;
    fn cancel(&self, id: u32);
    fn cancel_all(&self);
}
struct W<C: 'static>(&'static Arc<C>);
struct S<St>(St);

macro_rules! multi_impl {
    ($ty:ty, $item:ty, $n:literal, $rsv:literal, $conv:expr) => {
        impl MultiApi for W<$ty> {
            fn send(&self, v: u32) -> bool { self.0.send(v).is_ok() }
            fn send_how(&self, v: u32, how: u32) -> bool {
                match how {
                    1 => self.0.send_with(|slot| *slot = v).is_ok(),
                    2 if $rsv => match self.0.reserve_slot() {
                        Some(slot) => { *slot = v; let mut tries = 0; while !self.0.try_send_reserved(slot) { tries += 1; if tries > 1000 { panic!("try_send_reserved never answered true") } } true }
                        None => false },
                    3 => {
                        let ch: &'static $ty = &**self.0;
                        let mut fut = Box::pin(async move { ch.send_with_async(move |slot| async move { *slot = v; slot }).await.is_ok() });
                        let w: Waker = Arc::new(NoWake).into();
                        let mut cx = Context::from_waker(&w);
                        let mut polls = 0;
                        loop { match std::future::Future::poll(fut.as_mut(), &mut cx) { Poll::Ready(ok) => break ok, Poll::Pending => { polls += 1; if polls > 1000 { panic!("send_with_async with a ready setter stayed pending") } } } }
                    }
                    _ => self.0.send(v).is_ok(),
                }
            }
            fn create(&self) -> (Box<dyn PollS>, u32) { let (s, id) = self.0.create_stream_for_new_events(); (Box::new(S(s)), id) }
            fn running(&self) -> u32 { self.0.running_streams_count() }
            fn buffer(&self) -> usize { $n }
            fn cancel(&self, id: u32) { self.0.verif_streams_manager().cancel_stream(id) }
            fn cancel_all(&self) { self.0.cancel_all_streams() }
        }
        impl PollS for S<reactive_mutiny::mutiny_stream::MutinyStream<'static, u32, $ty, $item>> {
            fn poll(&mut self) -> Option<Got> {
                let w: Waker = Arc::new(NoWake).into();
                let mut cx = Context::from_waker(&w);
                match Pin::new(&mut self.0).poll_next(&mut cx) { Poll::Ready(Some(it)) => Some(($conv)(it)), _ => None }
            }
            fn poll_w(&mut self, w: &Waker) -> Option<Option<u32>> {
                let mut cx = Context::from_waker(w);
                match Pin::new(&mut self.0).poll_next(&mut cx) { Poll::Ready(Some(it)) => { let g: Got = ($conv)(it); let v = g.0; drop(g); Some(Some(v)) }, Poll::Ready(None) => Some(None), Poll::Pending => None }
            }
        }
    };
}
macro_rules! kinds { ($m:literal) => {
    multi_impl!(ChannelMultiArcAtomic<u32, 8, $m>, Arc<u32>, 8, false, |a: Arc<u32>| (*a, Arc::as_ptr(&a) as usize, Box::new(a) as Box<dyn Held>));
    multi_impl!(ChannelMultiArcFullSync<u32, 8, $m>, Arc<u32>, 8, false, |a: Arc<u32>| (*a, Arc::as_ptr(&a) as usize, Box::new(a) as Box<dyn Held>));
    multi_impl!(ChannelMultiArcCrossbeam<u32, 8, $m>, Arc<u32>, 8, false, |a: Arc<u32>| (*a, Arc::as_ptr(&a) as usize, Box::new(a) as Box<dyn Held>));
    multi_impl!(ChannelMultiOgreArcAtomic<u32, 8, $m>, OgreArc<u32, AllocatorAtomicArray<u32, 8>>, 8, true, |a: OgreArc<u32, AllocatorAtomicArray<u32, 8>>| (*a, &*a as *const u32 as usize, Box::new(a) as Box<dyn Held>));
    multi_impl!(ChannelMultiOgreArcFullSync<u32, 8, $m>, OgreArc<u32, AllocatorFullSyncArray<u32, 8>>, 8, true, |a: OgreArc<u32, AllocatorFullSyncArray<u32, 8>>| (*a, &*a as *const u32 as usize, Box::new(a) as Box<dyn Held>));
} }
kinds!(1); kinds!(2); kinds!(4);

fn leak<C: 'static>(c: Arc<C>) -> &'static Arc<C> { Box::leak(Box::new(c)) }
fn make(kind: &str, m: usize) -> Arc<dyn MultiApi> {
    macro_rules! mk { ($m:literal) => { match kind {
        "arc_atomic" => Arc::new(W(leak(ChannelMultiArcAtomic::<u32, 8, $m>::new("vh")))) as Arc<dyn MultiApi>,
        "arc_fullsync" => Arc::new(W(leak(ChannelMultiArcFullSync::<u32, 8, $m>::new("vh")))),
        "arc_crossbeam" => Arc::new(W(leak(ChannelMultiArcCrossbeam::<u32, 8, $m>::new("vh")))),
        "ogre_atomic" => Arc::new(W(leak(ChannelMultiOgreArcAtomic::<u32, 8, $m>::new("vh")))),
        _ => Arc::new(W(leak(ChannelMultiOgreArcFullSync::<u32, 8, $m>::new("vh")))),
    } } }
    match m { 1 => mk!(1), 2 => mk!(2), _ => mk!(4) }
}

fn filter_cancel(tag: &str) -> bool {
    filter(tag) || matches!(tag, "sm.cancelall.lock" | "sm.cancelall.unlock" | "sm.cancelall.read" | "sm.cancel" | "sm.flag" | "sm.reg.cmp" | "sm.reg.lock" | "sm.reg.store" | "sm.reg.selfwake" | "sm.wake" | "sm.wake.lock" | "sm.wake.retry")
}
fn filter(tag: &str) -> bool {
    matches!(tag, "sm.create.count" | "sm.create.vacant" | "sm.create.flag" | "sm.drop.count" | "sm.drop.vacant" | "sm.sync.lock" | "sm.sync.peek"
                | "sm.sync.write" | "sm.sync.sentinel" | "sm.running" | "mc.fan.read" | "ms.poll" | "mc.drop.drain" | "sync.spin")
}

/// a listener as the oracle sees it
struct Listener { sid: u32, created_at: usize, created_ret: usize, dropped_at: Option<usize>, dropped_ret: Option<usize>, got: Vec<(u32, usize, usize)>, stream: Option<std::mem::ManuallyDrop<Box<dyn PollS>>> }
struct Shared { listeners: Vec<Listener>, sends: Vec<(u32, usize, usize, usize)>, handles: Vec<(u32, Box<dyn Held>)>, hviol: Vec<(String, String)>, inflight: Vec<u32> }

fn do_create(ctx: &sched::Ctx, ch: &dyn MultiApi, sh: &Mutex<Shared>, lt: usize) -> usize {
    let pos = ctx.call(lt, "create");
    let (s, id) = ch.create();
    let rpos = ctx.ret(&format!("id {id}"));
    let mut g = sh.lock().unwrap();
    g.listeners.push(Listener { sid: id, created_at: pos, created_ret: rpos, dropped_at: None, dropped_ret: None, got: vec![], stream: Some(std::mem::ManuallyDrop::new(s)) });
    g.listeners.len() - 1
}
fn do_drop(ctx: &sched::Ctx, sh: &Mutex<Shared>, lt: usize, li: usize) {
    let (mut s, sid) = { let mut g = sh.lock().unwrap(); match g.listeners[li].stream.take() { Some(s) => (s, g.listeners[li].sid), None => return } };   // (being polled right now, or gone already)
    let pos = ctx.call(lt, &format!("drop {sid}"));
    sh.lock().unwrap().listeners[li].dropped_at = Some(pos);
    unsafe { std::mem::ManuallyDrop::drop(&mut s); }
    let r = ctx.ret("unit");
    sh.lock().unwrap().listeners[li].dropped_ret = Some(r);
}
fn do_send(ctx: &sched::Ctx, ch: &dyn MultiApi, sh: &Mutex<Shared>, lt: usize, v: u32) {
    let pos = ctx.call(lt, &format!("send {v}"));
    sh.lock().unwrap().inflight.push(v);
    // (every entry point that can accept an event, chosen from the event's number: the model's fan-out is the same for all of them)
    let ok = if v >= 9000 { ch.send(v) } else { ch.send_how(v, v % 4) };
    let r = ctx.ret(if ok { "unit" } else { "full" });
    let mut g = sh.lock().unwrap();
    g.inflight.retain(|x| *x != v);
    if ok { g.sends.push((v, lt, pos, r)); }
}
fn do_poll(ctx: &sched::Ctx, sh: &Mutex<Shared>, lt: usize, li: usize) -> bool {
    let (mut s, sid) = { let mut g = sh.lock().unwrap(); match g.listeners[li].stream.take() { Some(s) => (s, g.listeners[li].sid), None => return false } };
    let pos = ctx.call(lt, &format!("poll {sid}"));
    let got = s.poll();
    let mut g = sh.lock().unwrap();
    g.listeners[li].stream = Some(s);
    match got {
        Some((v, ident, h)) => {
            // storage must not be reused while a handle on it is still held
            if let Some((w, _)) = g.handles.iter().find(|(w, k)| *w != v && k.ident() == ident) { let w = *w; g.hviol.push(("slot_reused_while_held".into(), format!("event {v} arrived in the storage (address {ident:#x}) of event {w}, on which a listener still holds a handle"))); }
            g.listeners[li].got.push((v, ident, pos)); g.handles.push((v, h)); drop(g); ctx.ret(&format!("item {v}")); true }
        None => { drop(g); ctx.ret("item none"); false }
    }
}

/// releases every handle the harness holds; first checks, per event, that no more handles are held than the reference counter says
/// (then the value behind some handle is destroyed while held) and that each handle still reads the value it was received with
fn release_all(ctx: &sched::Ctx, sh: &Mutex<Shared>, lt: usize) { release_some(ctx, sh, lt, None) }
/// `only = Some(v)`: release just the newest handle on event `v` (a consumer that is done with an event at once)
fn release_some(ctx: &sched::Ctx, sh: &Mutex<Shared>, lt: usize, only: Option<u32>) {
    let (hs, inflight): (Vec<_>, Vec<u32>) = { let mut g = sh.lock().unwrap(); (std::mem::take(&mut g.handles), g.inflight.clone()) };
    let mut bad: std::collections::HashSet<u32> = Default::default();
    for (v, h) in &hs {
        let cur = ctx.quiet(|| h.value());
        if cur != *v { sh.lock().unwrap().hviol.push(("held_value_changed".into(), format!("a handle received as event {v} now reads {cur}: its storage was reused while held"))); bad.insert(*v); }
        let held = hs.iter().filter(|(w, k)| w == v && k.ident() == h.ident()).count() as u32;
        let refs = ctx.quiet(|| h.refs());
        // while the send of this event is still going on its producer holds a handle too
        let held = held + inflight.contains(v) as u32;
        if held > refs && !bad.contains(v) { sh.lock().unwrap().hviol.push(("destroyed_while_held".into(), format!("{held} handles on event {v} are held but its reference counter reads {refs}: the payload is destroyed (and its storage recycled) while {} handle(s) still exist", held - refs))); bad.insert(*v); }
    }
    let mut keep = vec![];
    let last = only.and_then(|o| hs.iter().rposition(|(w, _)| *w == o));
    for (k, (v, h)) in hs.into_iter().enumerate() {
        if bad.contains(&v) { std::mem::forget(h); continue }
        if only.is_some() && Some(k) != last { keep.push((v, h)); continue }
        ctx.call(lt, &format!("release {v}")); drop(h);
    }
    let mut g = sh.lock().unwrap();
    keep.extend(std::mem::take(&mut g.handles));
    g.handles = keep;
}

struct FlagWaker(std::sync::atomic::AtomicBool);
impl Wake for FlagWaker {
    fn wake(self: Arc<Self>) { self.0.store(true, SeqCst) }
    fn wake_by_ref(self: &Arc<Self>) { self.0.store(true, SeqCst) }
}

/// C07 on a Multi channel: 2-3 listeners driven by tasks that are polled only while notified; one thread removes a listener,
/// another calls `cancel_all_streams()`, a producer may be sending.  Oracle: at quiescence every listener that was not
/// removed has ended (a listener left parked, un-notified and not ended was never told to end).
fn run_cancelall(kind: &str, seed: u64, replay: Option<Vec<u8>>) -> (sched::Outcome, Vec<(String, String)>, String, String) {
    let mut rng = Rng::new(seed ^ 0xCA11);
    let ch = make(kind, 4);
    let k = rng.range(2, 3) as usize;
    let victim = rng.below(k as u64) as usize;           // the listener that is removed meanwhile
    let nsend = rng.below(3) as usize;
    let cfgkey = format!("{kind}/cancelall/k{k}v{victim}s{nsend}");
    struct Task { stream: Option<std::mem::ManuallyDrop<Box<dyn PollS>>>, sid: u32, flag: Arc<FlagWaker>, parked: bool, ended: bool, removed: bool }
    let tasks: Arc<Mutex<Vec<Task>>> = Arc::new(Mutex::new((0..k).map(|_| { let (s, sid) = ch.create();
        Task { stream: Some(std::mem::ManuallyDrop::new(s)), sid, flag: Arc::new(FlagWaker(std::sync::atomic::AtomicBool::new(true))), parked: false, ended: false, removed: false } }).collect()));
    let done = Arc::new(AtomicUsize::new(0));
    let spans: Arc<Mutex<Vec<(String, usize, usize)>>> = Arc::new(Mutex::new(vec![]));     // (what, call line, return line)
    let mut bodies: Vec<Body> = vec![];
    // listener tasks
    for li in 0..k {
        let (tasks, done, spans) = (tasks.clone(), done.clone(), spans.clone());
        bodies.push(Box::new(move |ctx| {
            let lt = 10 + li;
            loop {
                let (t2, d2) = (tasks.clone(), done.clone());
                ctx.block_until(Box::new(move || { let g = t2.lock().unwrap(); g[li].removed || g[li].ended || g[li].flag.0.load(SeqCst) || d2.load(SeqCst) >= 3 }));
                let (mut s, flag, sid) = { let mut g = tasks.lock().unwrap(); if g[li].removed || g[li].ended || !g[li].flag.0.load(SeqCst) { break }
                    match g[li].stream.take() { Some(s) => (s, g[li].flag.clone(), g[li].sid), None => break } };
                flag.0.store(false, SeqCst);
                ctx.call(lt, &format!("poll {sid}"));
                let w: Waker = flag.clone().into();
                let r = s.poll_w(&w);
                let mut g = tasks.lock().unwrap();
                g[li].stream = Some(s);
                match r {
                    Some(Some(v)) => { g[li].parked = false; g[li].flag.0.store(true, SeqCst); drop(g); ctx.ret(&format!("item {v}")); }
                    Some(None) => {
                        g[li].ended = true;
                        // an executor drops its stream as soon as it ended (this is what `close()` waits for)
                        let mut st = g[li].stream.take().unwrap();
                        drop(g); ctx.ret("end");
                        let c = ctx.call(lt, &format!("drop {sid}"));
                        unsafe { std::mem::ManuallyDrop::drop(&mut st); }
                        let r = ctx.ret("unit");
                        spans.lock().unwrap().push((format!("drop {sid}"), c, r));
                    }
                    None => { g[li].parked = true; drop(g); ctx.ret("pending"); }
                }
            }
        }));
    }
    // the thread removing one listener (waits until that listener's task is not inside a poll)
    {
        let (tasks, done, spans) = (tasks.clone(), done.clone(), spans.clone());
        bodies.push(Box::new(move |ctx| {
            for _ in 0..ctx.rand(4) { ctx.yield_point("h.delay", 0); }
            // (being made runnable is not being run: the listener's task may have started another poll meanwhile)
            let got = loop {
                let t2 = tasks.clone();
                ctx.block_until(Box::new(move || { let g = t2.lock().unwrap(); g[victim].stream.is_some() || g[victim].ended }));
                let mut g = tasks.lock().unwrap();
                if g[victim].ended { break None }          // it ended (and dropped its stream) by itself meanwhile
                if let Some(s) = g[victim].stream.take() { g[victim].removed = true; break Some((s, g[victim].sid)) }
            };
            if let Some((mut s, sid)) = got {
                let c = ctx.call(20, &format!("drop {sid}"));
                unsafe { std::mem::ManuallyDrop::drop(&mut s); }
                let r = ctx.ret("unit");
                spans.lock().unwrap().push((format!("drop {sid}"), c, r));
            }
            done.fetch_add(1, SeqCst);
        }));
    }
    // the thread ending all streams
    {
        let (ch, done, spans) = (ch.clone(), done.clone(), spans.clone());
        bodies.push(Box::new(move |ctx| {
            for _ in 0..ctx.rand(6) { ctx.yield_point("h.delay", 0); }
            let c = ctx.call(21, "cancelall");
            ch.cancel_all();
            let r = ctx.ret("unit");
            spans.lock().unwrap().push(("cancelall".into(), c, r));
            done.fetch_add(1, SeqCst);
        }));
    }
    // a producer
    {
        let (ch, done) = (ch.clone(), done.clone());
        bodies.push(Box::new(move |ctx| {
            for i in 0..nsend { ctx.call(1, &format!("send {}", 1000 + i)); let ok = ch.send(1000 + i as u32); ctx.ret(if ok { "unit" } else { "full" }); }
            done.fetch_add(1, SeqCst);
        }));
    }
    let mut cfg = Config::new(seed, filter_cancel);
    cfg.replay = replay;
    let outcome = sched::run(cfg, bodies);
    let mut viol = vec![];
    if outcome.verdict != Verdict::Completed { viol.push(("no_progress".into(), format!("{:?}", outcome.verdict))); }
    for (i, p) in outcome.panics.iter().enumerate() { if let Some(m) = p { viol.push(("panic".into(), format!("thread {i} panicked: {}", &m[..m.len().min(200)]))); } }
    if outcome.verdict == Verdict::Completed {
        let g = tasks.lock().unwrap_or_else(|e| e.into_inner());
        let sp = spans.lock().unwrap_or_else(|e| e.into_inner());
        let ca = sp.iter().find(|x| x.0 == "cancelall").cloned();
        for (li, t) in g.iter().enumerate() {
            if !t.removed && !t.ended {
                // cause class: which removals (by the remover thread, or of streams that ended because of this very cancel_all)
                // overlapped the cancel_all call, were they of lower stream ids, and did a rewrite step of `used_streams` fall inside it?
                let mut lower = vec![]; let mut higher = vec![];
                let cause = match &ca {
                    Some(c) => {
                        for d in sp.iter().filter(|x| x.0.starts_with("drop ") && x.1 <= c.2 && x.2 >= c.1) {
                            let dsid: u32 = d.0[5..].parse().unwrap_or(u32::MAX);
                            if dsid < t.sid { lower.push(dsid) } else { higher.push(dsid) }
                        }
                        let writes_inside = outcome.trace[c.1..=c.2.min(outcome.trace.len() - 1)].iter().any(|l| l.starts_with("pt ") && !l.starts_with("pt 21 ") && (l.contains(" sm.sync.write ") || l.contains(" sm.sync.sentinel ")));
                        if !lower.is_empty() && writes_inside { "list_rewritten_during_cancel_all_by_removal_of_lower_id" }
                        else if !lower.is_empty() { "removal_of_lower_id_in_progress_but_list_not_touched_during_cancel_all" }
                        else if !higher.is_empty() { "removal_of_higher_id_in_progress" } else { "no_removal_overlaps_cancel_all" } }
                    None => "no_cancel_all" };
                viol.push(("cancelled_stream_never_ended".into(), format!("Multi {kind}: cancel_all_streams() returned, yet listener #{li} (stream id {}) is parked, un-notified and never ended (streams removed meanwhile: lower ids {lower:?}, higher ids {higher:?}) [cause={cause}]", t.sid)));
            }
        }
    }
    let cfg = format!("cfg model=cancelall MAX=4 k={k} flavor={} drains=1 kind={kind}", if kind.starts_with("ogre") { "ogre" } else { "arc" });
    std::mem::forget(ch);
    (outcome, viol, cfgkey, cfg)
}

/// C07 / C10 (`sub=reuse`): a stream id handed out again WHILE its previous owner's removal is still finishing.
/// `MAX_STREAMS = 2`: a permanent listener holds one id, listener A holds the other; one thread drops A, another creates a
/// new listener meanwhile (it can only get A's id), polls it; a producer sends.  Oracle: the new listener -- which nobody told to
/// end -- never answers end-of-stream.  (A `create` that finds no vacant id yet panics `MAX_STREAMS ... exhausted`, as documented:
/// such a run is inconclusive.)
fn run_reuse(kind: &str, seed: u64, replay: Option<Vec<u8>>) -> (sched::Outcome, Vec<(String, String)>, String, String) {
    let mut rng = Rng::new(seed ^ 0x4E05);
    let ch = make(kind, 2);
    let (p_stream, _pid) = ch.create();
    let (a_stream, a_sid) = ch.create();
    let p_stream = Arc::new(Mutex::new(Some(std::mem::ManuallyDrop::new(p_stream))));
    let a_stream = Arc::new(Mutex::new(Some(std::mem::ManuallyDrop::new(a_stream))));
    let ended_uncancelled: Arc<Mutex<Vec<String>>> = Arc::new(Mutex::new(vec![]));
    let nsend = rng.below(3) as usize;
    let mut bodies: Vec<Body> = vec![];
    {   // the remover
        let a_stream = a_stream.clone();
        bodies.push(Box::new(move |ctx| {
            for _ in 0..ctx.rand(3) { ctx.yield_point("h.delay", 0); }
            let mut s = a_stream.lock().unwrap().take().unwrap();
            ctx.call(20, &format!("drop {a_sid}"));
            unsafe { std::mem::ManuallyDrop::drop(&mut s); }
            ctx.ret("unit");
        }));
    }
    {   // the creator + its listener's task
        let (ch, bad) = (ch.clone(), ended_uncancelled.clone());
        bodies.push(Box::new(move |ctx| {
            for _ in 0..(2 + ctx.rand(8)) { ctx.yield_point("h.delay", 0); }
            ctx.call(21, "create");
            let (mut s, sid) = ch.create();
            ctx.ret(&format!("id {sid}"));
            let flag = Arc::new(FlagWaker(std::sync::atomic::AtomicBool::new(false)));
            for k in 0..4 {
                ctx.call(21, &format!("poll {sid}"));
                let w: Waker = flag.clone().into();
                match s.poll_w(&w) {
                    Some(Some(v)) => { ctx.ret(&format!("item {v}")); }
                    Some(None) => { ctx.ret("end"); bad.lock().unwrap().push(format!("the listener created with (re-used) stream id {sid} answered end-of-stream at its poll #{k} although nobody told it to end")); break }
                    None => { ctx.ret("pending"); ctx.yield_point("h.delay", 0); }
                }
            }
            std::mem::forget(s);
        }));
    }
    {   // a producer
        let ch = ch.clone();
        bodies.push(Box::new(move |ctx| {
            for i in 0..nsend { ctx.call(1, &format!("send {}", 1000 + i)); let ok = ch.send(1000 + i as u32); ctx.ret(if ok { "unit" } else { "full" }); }
        }));
    }
    let mut cfg = Config::new(seed, filter_cancel);
    cfg.replay = replay;
    let outcome = sched::run(cfg, bodies);
    let mut viol = vec![];
    let mut inconclusive = false;
    for (i, p) in outcome.panics.iter().enumerate() { if let Some(m) = p {
        if m.contains("which just got exhausted") { inconclusive = true } else { viol.push(("panic".into(), format!("thread {i} panicked: {}", &m[..m.len().min(200)]))); } } }
    if outcome.verdict != Verdict::Completed && !inconclusive { viol.push(("no_progress".into(), format!("{:?}", outcome.verdict))); }
    for d in ended_uncancelled.lock().unwrap().iter() { viol.push(("uncancelled_stream_ended".into(), format!("Multi {kind}: {d} (the previous owner of that id was being removed meanwhile)"))); }
    let _ = p_stream;
    std::mem::forget(ch);
    (outcome, viol, format!("{kind}/reuse/{}", if inconclusive { "inconclusive" } else { "s" }), format!("cfg model=none kind={kind}"))
}

fn run_one(kind: &str, sub: &str, seed: u64, replay: Option<Vec<u8>>) -> (sched::Outcome, Vec<(String, String)>, String, String) {
    let mut rng = Rng::new(seed ^ 0xBEEF);
    let mx = [1usize, 2, 4][rng.below(3) as usize];
    let mx = if sub == "churn" { 4 } else { mx };
    let ch = make(kind, mx);
    let sh = Arc::new(Mutex::new(Shared { listeners: vec![], sends: vec![], handles: vec![], hviol: vec![], inflight: vec![] }));
    let done = Arc::new(AtomicUsize::new(0));
    let mut bodies: Vec<Body> = vec![];
    let mut cfgkey = format!("{kind}/{sub}/M{mx}");
    let nthreads;
    if sub == "hist" {
        // ------------------------------------------------------------ sequential history (C10)
        let len = rng.range(4, 22) as usize;
        cfgkey += &format!("/h{}", len / 6);
        let mut hrng = Rng::new(seed ^ 0x1234);
        let (ch, sh, done) = (ch.clone(), sh.clone(), done.clone());
        bodies.push(Box::new(move |ctx| {
            let mut next_v = 100u32;
            let mut live: Vec<usize> = vec![];
            // events possibly buffered per live listener (a full queue makes the arc channels wait by design)
            let mut buffered: std::collections::HashMap<usize, usize> = Default::default();
            for _ in 0..len {
                match hrng.below(8) {
                    0 | 1 => if live.len() < mx { let li = do_create(ctx, &*ch, &sh, 0); live.push(li); buffered.insert(li, ch.buffer()); /* unknown leftovers of a previous owner of the id */ },
                    // (a send may FILL a listener's queue -- the one after that would make the arc channels wait by design)
                    2 | 3 | 4 => if live.iter().all(|li| buffered[li] < ch.buffer()) { next_v += 1; do_send(ctx, &*ch, &sh, 0, next_v); for li in &live { *buffered.get_mut(li).unwrap() += 1; } },
                    5 | 6 => if !live.is_empty() { let li = live[hrng.below(live.len() as u64) as usize]; let mut emptied = false; for _ in 0..hrng.range(1, 9) { if !do_poll(ctx, &sh, 0, li) { emptied = true; break } } let b = buffered.get_mut(&li).unwrap(); if emptied { *b = 0 } else if *b > 0 && *b < ch.buffer() { *b -= 1 } },
                    _ => if !live.is_empty() {
                        // sometimes the queues are first filled to the brim: the listener is dropped with exactly BUFFER_SIZE events unconsumed
                        if hrng.chance(1, 4) {
                            while live.iter().all(|li| buffered[li] < ch.buffer()) { next_v += 1; do_send(ctx, &*ch, &sh, 0, next_v); for li in &live { *buffered.get_mut(li).unwrap() += 1; } }
                        }
                        let k = hrng.below(live.len() as u64) as usize; let li = live.remove(k);
                        // sometimes the listener is first told to end (and possibly polled a little more) before it is dropped
                        if hrng.chance(1, 3) {
                            let sid = sh.lock().unwrap().listeners[li].sid;
                            ctx.call(0, &format!("cancel {sid}"));
                            ctx.quiet(|| ch.cancel(sid));
                            if hrng.chance(1, 2) { do_poll(ctx, &sh, 0, li); }
                        }
                        do_drop(ctx, &sh, 0, li);
                    },
                }
                // keep the pools from filling up: handles are released as soon as they are received
                release_all(ctx, &sh, 0);
            }
            // drain what the live listeners still have, then drop them
            for li in live.clone() { while do_poll(ctx, &sh, 0, li) {} }
            release_all(ctx, &sh, 0);
            let c = ctx.quiet(|| ch.running()); ctx.note(format!("obs count {c}"));
            for li in live { do_drop(ctx, &sh, 0, li); }
            let c = ctx.quiet(|| ch.running()); ctx.note(format!("obs count {c}"));
            done.fetch_add(1, SeqCst);
        }));
        nthreads = 1;
    } else {
        // ------------------------------------------------------------ fan / churn
        let k = if sub == "churn" { rng.range(2, 3) as usize } else { rng.range(1, mx as u64) as usize };
        let np = if sub == "churn" { 1 } else { rng.range(1, 2) as usize };
        cfgkey += &format!("/k{k}p{np}");
        // the permanent listeners are created by the main thread before the run starts (traced by a setup thread)
        let setup_done = Arc::new(std::sync::atomic::AtomicBool::new(false));
        {
            let (ch, sh, sd) = (ch.clone(), sh.clone(), setup_done.clone());
            bodies.push(Box::new(move |ctx| { for _ in 0..k { do_create(ctx, &*ch, &sh, 0); } sd.store(true, SeqCst); }));
        }
        for p in 0..np {
            let n = rng.range(1, 3) as usize;
            let (ch, sh, done, sd) = (ch.clone(), sh.clone(), done.clone(), setup_done.clone());
            bodies.push(Box::new(move |ctx| {
                let lt = 1 + p;
                ctx.block_until(Box::new(move || sd.load(SeqCst)));
                for i in 0..n { do_send(ctx, &*ch, &sh, lt, (p as u32 + 1) * 1000 + i as u32); }
                done.fetch_add(1, SeqCst);
            }));
        }
        for c in 0..k {
            let n = rng.range(1, 4) as usize;
            let (sh, done, sd) = (sh.clone(), done.clone(), setup_done.clone());
            bodies.push(Box::new(move |ctx| {
                let lt = 10 + c;
                ctx.block_until(Box::new(move || sd.load(SeqCst)));
                let mut prng = Rng::new(seed ^ (0x51 + c as u64));
                for _ in 0..n {
                    let before = sh.lock().unwrap().listeners[c].got.len();
                    if do_poll(ctx, &sh, lt, c) && prng.chance(1, 2) {
                        // this consumer is done with the event at once (the others may still be waiting for their copy)
                        let v = sh.lock().unwrap().listeners[c].got[before].0;
                        release_some(ctx, &sh, lt, Some(v));
                    }
                }
                done.fetch_add(1, SeqCst);
            }));
        }
        let mut extra = 0;
        if sub == "churn" {
            let n = rng.range(1, 3) as usize;
            let (ch, sh, done, sd) = (ch.clone(), sh.clone(), done.clone(), setup_done.clone());
            let mut crng = Rng::new(seed ^ 0x77);
            bodies.push(Box::new(move |ctx| {
                let lt = 20;
                ctx.block_until(Box::new(move || sd.load(SeqCst)));
                let mut mine: Vec<usize> = vec![];
                for _ in 0..n {
                    // a dropped pre-existing listener is part of the property's quantifier too: sometimes one of them is removed
                    // (then the entries of the listeners with higher ids move inside `used_streams`)
                    if crng.chance(1, 4) { do_drop(ctx, &sh, lt, crng.below(k as u64) as usize); }
                    else if mine.is_empty() || (mine.len() < mx - k && crng.chance(1, 2)) { mine.push(do_create(ctx, &*ch, &sh, lt)); }
                    else { let li = mine.remove(0); do_drop(ctx, &sh, lt, li); }
                }
                done.fetch_add(1, SeqCst);
            }));
            extra = 1;
        }
        let others = np + k + extra;
        {
            // finalizer: every listener that still exists drains its queue; handles are released; capacity check
            let (ch, sh, done) = (ch.clone(), sh.clone(), done.clone());
            bodies.push(Box::new(move |ctx| {
                let lt = 30;
                let d2 = done.clone();
                ctx.block_until(Box::new(move || d2.load(SeqCst) == others));
                let n = sh.lock().unwrap().listeners.len();
                for li in 0..n { while do_poll(ctx, &sh, lt, li) {} }
                release_all(ctx, &sh, lt);
                // capacity restored: BUFFER_SIZE more events are accepted (each consumed + released at once by everybody)
                let mut acc = 0;
                for i in 0..ch.buffer() {
                    let v = 9000 + i as u32;
                    let before = sh.lock().unwrap().sends.len();
                    do_send(ctx, &*ch, &sh, lt, v);
                    if sh.lock().unwrap().sends.len() > before { acc += 1 }
                }
                ctx.note(format!("refill {acc}"));
            }));
        }
        nthreads = others + 2;
    }
    let _ = nthreads;
    let mut cfg = Config::new(seed, filter);
    cfg.watch = |t| t == "oa.inc";     // where the reference counter is raised, relative to the fan-out loop (checked against the model)
    cfg.replay = replay;
    let outcome = sched::run(cfg, bodies);
    // ---------------------------------------------------------------- oracle
    let mut viol = vec![];
    let g = sh.lock().unwrap();
    if outcome.verdict != Verdict::Completed { viol.push(("no_progress".into(), format!("{:?}", outcome.verdict))); }
    for (i, p) in outcome.panics.iter().enumerate() { if let Some(m) = p { viol.push(("panic".into(), format!("thread {i} panicked: {}", &m[..m.len().min(200)]))); } }
    let end = outcome.trace.len();
    viol.extend(g.hviol.iter().cloned());
    // listener creations / removals whose call overlapped the trace window [a, b] (stream id, 'c' | 'd'), other than listener `not`
    let churn_in = |a: usize, b: usize, not: usize| -> Vec<(u32, char)> {
        let mut v = vec![];
        for (mi, m) in g.listeners.iter().enumerate() {
            if mi == not { continue }
            if m.created_at <= b && m.created_ret >= a { v.push((m.sid, 'c')); }
            if let Some(d) = m.dropped_at { if d <= b && m.dropped_ret.unwrap_or(end) >= a { v.push((m.sid, 'd')); } }
        }
        v };
    for (li, l) in g.listeners.iter().enumerate() {
        let dropped = l.dropped_at.unwrap_or(end);
        let mut seen = std::collections::HashSet::new();
        for (v, _ident, _pos) in &l.got {
            if *v >= 9000 { continue }
            match g.sends.iter().find(|s| s.0 == *v) {
                None => viol.push(("invented".into(), format!("listener #{li} (stream id {}) received {v} which no send carried", l.sid))),
                Some(s) => if s.3 < l.created_at {
                    let cause = if churn_in(s.2, s.3, li).iter().any(|(y, k)| *y == l.sid && *k == 'd') { "send_overlapped_the_removal_of_the_previous_owner_of_the_stream_id" } else { "send_did_not_overlap_a_removal_of_that_stream_id" };
                    viol.push(("stale_event".into(), format!("listener #{li} (stream id {}), created at trace line {}, received event {v} whose send had completed at line {} -- before the listener existed [cause={cause}]", l.sid, l.created_at, s.3))); },
            }
            if !seen.insert(*v) {
                let cause = match g.sends.iter().find(|s| s.0 == *v) {
                    Some(s) => { let ch = churn_in(s.2, s.3, li); if ch.iter().any(|(y, _)| *y < l.sid) { "entry_shifted_by_churn_of_lower_id" } else if ch.is_empty() { "no_churn_overlaps_the_send" } else { "only_higher_ids_churned" } },
                    None => "unknown_send" };
                viol.push(("duplicate".into(), format!("listener #{li} (stream id {}) received {v} twice [cause={cause}]", l.sid))); }
        }
        // per-producer order
        let mut last: std::collections::HashMap<usize, u32> = Default::default();
        for (v, _, _) in &l.got { if let Some(s) = g.sends.iter().find(|s| s.0 == *v) { if let Some(p) = last.insert(s.1, *v) { if p > *v { viol.push(("order".into(), format!("listener #{li} received {v} after {p} (same producer)"))); } } } }
        // completeness: a listener that existed during the whole send and was drained must have the event
        // (fan / churn: only the listeners that were never removed are drained by the finalizer; a removed one yields a prefix)
        if outcome.verdict == Verdict::Completed && (if sub == "hist" { l.dropped_at.map(|d| d >= end - 4).unwrap_or(true) } else { l.dropped_at.is_none() }) {
            for s in &g.sends { if s.0 < 9000 && s.2 > l.created_ret && s.3 < dropped && !seen.contains(&s.0) && (sub != "hist" || true) {
                // in `hist` a listener dropped with leftovers legitimately misses them; only listeners drained at the end count
                if sub == "hist" && l.dropped_at.is_some() && l.dropped_at.unwrap() < end - 2 - 2 * g.listeners.len() { continue }
                // cause class: which listener creations / removals overlapped the send, and were their stream ids below the victim's?
                // (`used_streams` is kept sorted: creating or dropping id Y rewrites the entries of the ids above Y with other values,
                //  the entries of the ids below Y are rewritten with the values they already hold)
                let churned: Vec<u32> = churn_in(s.2, s.3, li).iter().map(|x| x.0).collect();
                let cause = if churned.is_empty() { "no_churn_overlaps_the_send" } else if churned.iter().any(|y| *y < l.sid) { "entry_shifted_by_churn_of_lower_id" } else { "only_higher_ids_churned" };
                viol.push(("missed_event".into(), format!("listener #{li} (stream id {}) existed from line {} to {} and was drained, but never received event {} sent in lines {}..{} [cause={cause}; ids churned meanwhile: {:?}]", l.sid, l.created_at, dropped, s.0, s.2, s.3, churned)));
            } }
        }
    }
    // the same shared allocation for all listeners
    for s in &g.sends {
        let ids: std::collections::HashSet<usize> = g.listeners.iter().flat_map(|l| l.got.iter().filter(|x| x.0 == s.0).map(|x| x.1)).collect();
        if ids.len() > 1 { viol.push(("different_allocation".into(), format!("event {} reached its listeners through {} different allocations", s.0, ids.len()))); }
    }
    for l in &outcome.trace { if let Some(k) = l.strip_prefix("refill ") { if kind.starts_with("ogre") && k.parse::<usize>().ok() != Some(ch.buffer()) { 
        let cause = if g.sends.iter().any(|s| s.0 < 9000 && !churn_in(s.2, s.3, usize::MAX).is_empty()) { "a_listener_was_created_or_removed_during_a_send" } else { "no_churn_overlaps_any_send" };
        viol.push(("storage_leaked".into(), format!("after every listener drained and every handle was released only {k} of {} further events were accepted: payload slots stay occupied [cause={cause}]", ch.buffer()))); } } }
    drop(g);
    let flavor = if kind.starts_with("ogre") { "ogre" } else { "arc" };
    let cfg = format!("cfg model=multi MAX={mx} flavor={flavor} drains={}", std::env::var("VH_DRAINS").unwrap_or("0".into()));
    std::mem::forget(ch);
    (outcome, viol, cfgkey, cfg)
}

fn main() {
    let a = Args::parse();
    let kind = a.get("kind", "arc_atomic");
    let sub = a.get("sub", "fan");
    let seed0 = a.num("seed", 1);
    let runs = a.num("runs", 100);
    let replay_dir = a.get("replay_dir", "");
    let pid = a.get("prop", "C");
    std::env::set_var("VH_DRAINS", a.get("drains", "0"));
    let mut out = TraceOut::new(&a.get("trace", ""));
    let mut rep = Report::new(&format!("multi/{kind}/{sub}"));
    let single = a.kv.get("choices").map(|c| parse_choices(c));
    for i in 0..runs {
        let seed = if a.kv.contains_key("seedx") { a.num("seedx", 0) } else { seed0.wrapping_mul(1_000_003).wrapping_add(i) };
        mark_run(seed);
        let (o, viol, cfgkey, cfg) = if sub == "cancelall" { run_cancelall(&kind, seed, single.clone()) } else if sub == "reuse" { run_reuse(&kind, seed, single.clone()) } else { run_one(&kind, &sub, seed, single.clone()) };
        let nontrivial = match sub.as_str() {
            "hist" => o.trace.iter().filter(|l| l.contains(" drop ")).count() > 0 && o.trace.iter().filter(|l| l.contains(" create")).count() > 1,
            "churn" => { // a bookkeeping step of the churn thread between two fan-out steps of a send
                let mut in_fan = false; let mut hit = false;
                for l in &o.trace { if l.contains(" mc.fan.read ") || l.contains(" sm.running ") { in_fan = true } else if l.starts_with("ret ") && l.ends_with(" unit") && !l.starts_with("ret 20") { in_fan = false } else if in_fan && l.starts_with("pt 20 ") { hit = true } }
                hit }
            "reuse" => { let c = o.trace.iter().position(|l| l == "call 21 create"); let d = o.trace.iter().position(|l| l.starts_with("call 20 drop")); let dr = o.trace.iter().position(|l| l == "ret 20 unit");
                         matches!((c, d, dr), (Some(c), Some(d), Some(dr)) if d < c && c < dr) }
            "cancelall" => { let c = o.trace.iter().position(|l| l == "call 21 cancelall"); let d = o.trace.iter().position(|l| l.starts_with("call 20 drop"));
                             let cr = o.trace.iter().position(|l| l == "ret 21 unit"); let dr = o.trace.iter().position(|l| l == "ret 20 unit");
                             matches!((c, cr, d, dr), (Some(c), Some(cr), Some(d), Some(dr)) if d <= cr && dr >= c) }
            _ => o.trace.iter().filter(|l| l.contains(" mc.fan.read ")).count() > 1,
        };
        rep.add_run(&o.trace, nontrivial, &cfgkey, &format!("{:?}", o.verdict));
        if sub != "reuse" { out.write_run(&format!("{cfg} seed={seed} run={i}"), &o.trace); }
        for (k, d) in viol {
            let header = vec![format!("cmd multi kind={kind} sub={sub} runs=1 seedx={seed} choices={}", choices_str(&o.choices)), format!("violation {k}: {d}"), cfg.clone()];
            let path = write_replay(&replay_dir, &format!("{pid}-multi-{kind}-{sub}-seed{seed}-{k}"), &header, &o.trace);
            rep.violations.push(Violation { run: i, seed, kind: k, detail: d, replay: path });
        }
    }
    out.finish();
    rep.print();
}
