//! Scenario `uni`: the five Uni channels with hand-driven stream tasks under the baton scheduler.
//!
//!   uni kind=matomic|mfullsync|mcrossbeam|zatomic|zfullsync sub=flow|cancel|fine|susp|mid seed=<s> runs=<r> trace=<f> replay_dir=<d>
//!
//! * `flow`  : 1-3 producers (send / send_with / send_with_async / try_send_reserved) + 1..MAX_STREAMS stream tasks that
//!             poll, park when answered `Pending`, and are polled again when their waker fired (sometimes spuriously);
//!             queue operations are atomic at this granularity (yield points: `ms.*`, `sm.*`, `sync.spin`, `cb.*`).
//!             Model: M8 `Wake` (step-level).  Oracle: exactly-once, per-producer order, *no stuck event* (C01, C02, C04, C16)
//! * `cancel`: the same plus cancel requests at arbitrary points; oracle: every targeted stream ends (C07)
//! * `fine`  : every hook of the rings is a yield point as well (two-phase publication visible); no model, oracle only (C04)
//! * `susp`  : one or two `send_with_async` futures left suspended while other threads use the channel; fine granularity;
//!             oracle: the scheduler's stall verdict (C20)

use std::future::Future;
use std::pin::Pin;
use std::sync::{Arc, Mutex, atomic::{AtomicBool, AtomicUsize, Ordering::SeqCst}};
use std::task::{Context, Poll, Wake, Waker};
use futures::Stream;
use reactive_mutiny::prelude::advanced::*;
use vh::sched::{self, Body, Config, Verdict};
use vh::util::*;

type Handle = Option<Box<dyn std::any::Any + Send>>;

struct FlagWaker(AtomicBool);
impl Wake for FlagWaker {
    fn wake(self: Arc<Self>) { self.0.store(true, SeqCst) }
    fn wake_by_ref(self: &Arc<Self>) { self.0.store(true, SeqCst) }
}

/// a future that stays pending until its gate opens
struct Gate(Arc<AtomicBool>);
impl Future for Gate {
    type Output = ();
    fn poll(self: Pin<&mut Self>, _cx: &mut Context<'_>) -> Poll<()> { if self.0.load(SeqCst) { Poll::Ready(()) } else { Poll::Pending } }
}

trait PollS: Send { fn poll(&mut self, w: &Waker) -> Poll<Option<(u32, Handle)>>; }

trait UniApi: Send + Sync {
    fn send(&self, v: u32) -> bool;
    fn send_with(&self, v: u32) -> bool;
    fn async_start(&self, v: u32, gate: Arc<AtomicBool>) -> Pin<Box<dyn Future<Output = bool> + Send>>;
    fn reserve_send(&self, v: u32) -> Option<bool>;
    fn has_rsv(&self) -> bool;
    fn create_stream(&self) -> Box<dyn PollS>;
    fn cancel_stream(&self, id: u32);
    fn cancel_all(&self);
    fn pending(&self) -> u32;
    fn is_open(&self) -> bool;
    fn running(&self) -> u32;
}

struct W<C: 'static>(&'static Arc<C>);
struct S<St>(St);

macro_rules! uni_impl {
    ($ty:ty, $item:ty, $conv:expr, $has_rsv:expr) => {
        impl UniApi for W<$ty> {
            fn send(&self, v: u32) -> bool { self.0.send(v).is_ok() }
            fn send_with(&self, v: u32) -> bool { self.0.send_with(move |slot| *slot = v).is_ok() }
            fn async_start(&self, v: u32, gate: Arc<AtomicBool>) -> Pin<Box<dyn Future<Output = bool> + Send>> {
                let ch: &'static $ty = &**self.0;
                Box::pin(async move { ch.send_with_async(move |slot| async move { Gate(gate).await; *slot = v; slot }).await.is_ok() })
            }
            fn has_rsv(&self) -> bool { $has_rsv }
            fn reserve_send(&self, v: u32) -> Option<bool> {
                if !$has_rsv { return None }
                match self.0.reserve_slot() {
                    Some(slot) => { *slot = v; let mut tries = 0; while !self.0.try_send_reserved(slot) { tries += 1; if tries > 1000 { panic!("try_send_reserved never answered true") } } Some(true) }
                    None => Some(false),
                }
            }
            fn create_stream(&self) -> Box<dyn PollS> { let (s, _id) = self.0.create_stream(); Box::new(S(s)) }
            fn cancel_stream(&self, id: u32) { self.0.verif_streams_manager().cancel_stream(id) }
            fn cancel_all(&self) { self.0.cancel_all_streams() }
            fn pending(&self) -> u32 { self.0.pending_items_count() }
            fn is_open(&self) -> bool { self.0.is_channel_open() }
            fn running(&self) -> u32 { self.0.running_streams_count() }
        }
        impl PollS for S<reactive_mutiny::mutiny_stream::MutinyStream<'static, u32, $ty, $item>> {
            fn poll(&mut self, w: &Waker) -> Poll<Option<(u32, Handle)>> {
                let mut cx = Context::from_waker(w);
                match Pin::new(&mut self.0).poll_next(&mut cx) {
                    Poll::Ready(Some(it)) => Poll::Ready(Some(($conv)(it))),
                    Poll::Ready(None) => Poll::Ready(None),
                    Poll::Pending => Poll::Pending,
                }
            }
        }
    };
}

macro_rules! multi_impl {
    ($ty:ty, $item:ty, $conv:expr, $has_rsv:expr) => {
        impl UniApi for W<$ty> {
            fn send(&self, v: u32) -> bool { self.0.send(v).is_ok() }
            fn send_with(&self, v: u32) -> bool { self.0.send_with(move |slot| *slot = v).is_ok() }
            fn async_start(&self, v: u32, gate: Arc<AtomicBool>) -> Pin<Box<dyn Future<Output = bool> + Send>> {
                let ch: &'static $ty = &**self.0;
                Box::pin(async move { ch.send_with_async(move |slot| async move { Gate(gate).await; *slot = v; slot }).await.is_ok() })
            }
            fn has_rsv(&self) -> bool { $has_rsv }
            fn reserve_send(&self, v: u32) -> Option<bool> {
                if !$has_rsv { return None }
                match self.0.reserve_slot() { Some(slot) => { *slot = v; Some(self.0.try_send_reserved(slot)) } None => Some(false) }
            }
            fn create_stream(&self) -> Box<dyn PollS> { let (s, _id) = self.0.create_stream_for_new_events(); Box::new(S(s)) }
            fn cancel_stream(&self, id: u32) { self.0.verif_streams_manager().cancel_stream(id) }
            fn cancel_all(&self) { self.0.cancel_all_streams() }
            fn pending(&self) -> u32 { self.0.pending_items_count() }
            fn is_open(&self) -> bool { self.0.is_channel_open() }
            fn running(&self) -> u32 { self.0.running_streams_count() }
        }
        impl PollS for S<reactive_mutiny::mutiny_stream::MutinyStream<'static, u32, $ty, $item>> {
            fn poll(&mut self, w: &Waker) -> Poll<Option<(u32, Handle)>> {
                let mut cx = Context::from_waker(w);
                match Pin::new(&mut self.0).poll_next(&mut cx) {
                    Poll::Ready(Some(it)) => Poll::Ready(Some(($conv)(it))),
                    Poll::Ready(None) => Poll::Ready(None),
                    Poll::Pending => Poll::Pending,
                }
            }
        }
    };
}
macro_rules! multi_kinds { ($n:literal, $m:literal) => {
    multi_impl!(ChannelMultiArcAtomic<u32, $n, $m>, Arc<u32>, |a: Arc<u32>| (*a, Some(Box::new(a) as Box<dyn std::any::Any + Send>)), false);
    multi_impl!(ChannelMultiArcFullSync<u32, $n, $m>, Arc<u32>, |a: Arc<u32>| (*a, Some(Box::new(a) as Box<dyn std::any::Any + Send>)), false);
    multi_impl!(ChannelMultiArcCrossbeam<u32, $n, $m>, Arc<u32>, |a: Arc<u32>| (*a, Some(Box::new(a) as Box<dyn std::any::Any + Send>)), false);
    multi_impl!(ChannelMultiOgreArcAtomic<u32, $n, $m>, OgreArc<u32, AllocatorAtomicArray<u32, $n>>, |a: OgreArc<u32, AllocatorAtomicArray<u32, $n>>| (*a, Some(Box::new(a) as Box<dyn std::any::Any + Send>)), true);
    multi_impl!(ChannelMultiOgreArcFullSync<u32, $n, $m>, OgreArc<u32, AllocatorFullSyncArray<u32, $n>>, |a: OgreArc<u32, AllocatorFullSyncArray<u32, $n>>| (*a, Some(Box::new(a) as Box<dyn std::any::Any + Send>)), true);
} }
multi_kinds!(8, 1); multi_kinds!(16, 1); multi_kinds!(16, 2);

macro_rules! kinds {
    ($n:literal, $m:literal) => {
        uni_impl!(ChannelUniMoveAtomic<u32, $n, $m>, u32, |v: u32| (v, None), true);
        uni_impl!(ChannelUniMoveFullSync<u32, $n, $m>, u32, |v: u32| (v, None), false);
        uni_impl!(ChannelUniMoveCrossbeam<u32, $n, $m>, u32, |v: u32| (v, None), false);
        uni_impl!(ChannelUniZeroCopyAtomic<u32, $n, $m>, OgreUnique<u32, AllocatorAtomicArray<u32, $n>>, |h: OgreUnique<u32, AllocatorAtomicArray<u32, $n>>| (*h, Some(Box::new(h) as Box<dyn std::any::Any + Send>)), true);
        uni_impl!(ChannelUniZeroCopyFullSync<u32, $n, $m>, OgreUnique<u32, AllocatorFullSyncArray<u32, $n>>, |h: OgreUnique<u32, AllocatorFullSyncArray<u32, $n>>| (*h, Some(Box::new(h) as Box<dyn std::any::Any + Send>)), true);
    };
}
kinds!(2, 1); kinds!(2, 2); kinds!(4, 1); kinds!(4, 2);

fn leak<C: 'static>(c: Arc<C>) -> &'static Arc<C> { Box::leak(Box::new(c)) }

fn make_multi(kind: &str, n: usize, m: usize) -> Arc<dyn UniApi> {
    macro_rules! mk { ($n:literal, $m:literal) => { match kind {
        "marc_atomic" => Arc::new(W(leak(ChannelMultiArcAtomic::<u32, $n, $m>::new("vh")))) as Arc<dyn UniApi>,
        "marc_fullsync" => Arc::new(W(leak(ChannelMultiArcFullSync::<u32, $n, $m>::new("vh")))),
        "marc_crossbeam" => Arc::new(W(leak(ChannelMultiArcCrossbeam::<u32, $n, $m>::new("vh")))),
        "mogre_atomic" => Arc::new(W(leak(ChannelMultiOgreArcAtomic::<u32, $n, $m>::new("vh")))),
        _ => Arc::new(W(leak(ChannelMultiOgreArcFullSync::<u32, $n, $m>::new("vh")))),
    } } }
    if m == 2 { mk!(16, 2) } else if n == 8 { mk!(8, 1) } else { mk!(16, 1) }
}

fn make(kind: &str, n: usize, m: usize) -> Arc<dyn UniApi> {
    if kind.starts_with("marc") || kind.starts_with("mogre") { return make_multi(kind, n, m) }
    macro_rules! mk { ($n:literal, $m:literal) => { match kind {
        "matomic" => Arc::new(W(leak(ChannelUniMoveAtomic::<u32, $n, $m>::new("vh")))) as Arc<dyn UniApi>,
        "mfullsync" => Arc::new(W(leak(ChannelUniMoveFullSync::<u32, $n, $m>::new("vh")))),
        "mcrossbeam" => Arc::new(W(leak(ChannelUniMoveCrossbeam::<u32, $n, $m>::new("vh")))),
        "zatomic" => Arc::new(W(leak(ChannelUniZeroCopyAtomic::<u32, $n, $m>::new("vh")))),
        _ => Arc::new(W(leak(ChannelUniZeroCopyFullSync::<u32, $n, $m>::new("vh")))),
    } } }
    match (n, m) { (2, 1) => mk!(2, 1), (2, 2) => mk!(2, 2), (4, 1) => mk!(4, 1), _ => mk!(4, 2) }
}

fn filter_coarse(tag: &str) -> bool {
    matches!(tag, "ms.poll" | "sm.flag" | "sm.reg.cmp" | "sm.reg.lock" | "sm.reg.store" | "sm.reg.selfwake" | "sm.wake" | "sm.wake.lock" | "sm.wake.retry"
                | "sm.cancel" | "sm.drop.lock" | "sm.drop.waker" | "sm.sync.lock" | "sm.sync.peek" | "sync.spin")
}
/// `mid`: the streams-manager protocol plus the two steps of a publication on the two-phase ring (the in-order publication CAS and
/// the length measurement that follows it) -- the granularity of the two-phase part of model M8
fn filter_mid(tag: &str) -> bool { filter_coarse(tag) || tag == "am.p.publish" || tag == "am.p.len" }
fn filter_fine(tag: &str) -> bool { filter_coarse(tag) || tag.starts_with("am.") || tag.starts_with("fs.") || tag.starts_with("cb.") }

#[derive(Clone, Debug)]
struct Ev { who: usize, what: String, v: u32, pos: usize }

struct Shared {
    evs: Vec<Ev>,
    /// zero-copy payload handles not yet released
    handles: Vec<Box<dyn std::any::Any + Send>>,
}

#[derive(Clone, Copy, PartialEq)]
enum Sub { Flow, Cancel, Fine, Susp, Mid }

fn run_one(kind: &str, sub: Sub, seed: u64, replay: Option<Vec<u8>>) -> (sched::Outcome, Vec<(String, String)>, String, String) {
    let mut rng = Rng::new(seed ^ 0xC0FFEE);
    let is_multi = kind.starts_with("marc") || kind.starts_with("mogre");
    let n = if is_multi { let _ = rng.chance(1, 2); 16 } else if rng.chance(1, 2) { 2 } else { 4 };
    // (Multi kinds are driven through one listener -- except in `susp`, where half of the runs have two: every listener's queue is
    //  then a separate consumer of the same events)
    let mx = if is_multi { if sub == Sub::Susp && rng.chance(1, 2) { 2 } else { 1 } } else { rng.range(1, 2) as usize };
    let k = if is_multi { mx } else { rng.range(1, mx as u64) as usize };
    let ch = make(kind, n, mx);
    // Multi channels seen through one listener: every send allocates first (Arc / pool slot) and touches the listener's queue after
    // the await -- the zero-copy flavour of the asynchronous send; only the ogre_arc pool bounds what is outstanding
    let zc = kind.starts_with('z') || is_multi;
    let mov_async_ok = kind == "matomic";       // movable full-sync holds the queue lock while suspended: only alone (sub susp)
    let np = rng.range(1, 3) as usize;
    let prequeued = if sub == Sub::Fine { rng.below(3) } else { 0 };
    let cfgkey = format!("{kind}/N{n}/M{mx}/k{k}/p{np}");
    let sh = Arc::new(Mutex::new(Shared { evs: vec![], handles: vec![] }));
    let prod_done = Arc::new(AtomicUsize::new(0));
    let cons_done = Arc::new(AtomicUsize::new(0));
    let drained = Arc::new(AtomicBool::new(false));
    // streams are created before the run (ids 0..k-1, in order)
    let mut streams: Vec<Box<dyn PollS>> = (0..k).map(|_| ch.create_stream()).collect();
    for i in 0..prequeued { ch.send(500 + i as u32); }
    let mut bodies: Vec<Body> = vec![];
    // ---------------------------------------------------------------- producers
    // at most one asynchronous send outstanding at a time on the movable atomic channel unless resumed in order: we
    // keep a global FIFO of suspended movable sends and only resume its head
    let susp_fifo: Arc<Mutex<Vec<usize>>> = Arc::new(Mutex::new(vec![]));
    for p in 0..np {
        let nops = rng.range(1, 4) as usize;
        let mut orng = Rng::new(seed.wrapping_mul(131).wrapping_add(p as u64));
        let (ch, sh, prod_done, susp_fifo) = (ch.clone(), sh.clone(), prod_done.clone(), susp_fifo.clone());
        let kind = kind.to_string();
        let fine = sub == Sub::Fine || sub == Sub::Susp || sub == Sub::Mid;
        let is_mid = sub == Sub::Mid;
        let no_mov_async = sub == Sub::Cancel;
        let others_done = prod_done.clone();
        let nprod_total = np;
        let is_susp = sub == Sub::Susp;
        let has_async = kind != "mcrossbeam";
        // how many streams yield each accepted event: every listener of a Multi channel, one stream of a Uni channel
        let copies = if is_multi { k } else { 1 };
        bodies.push(Box::new(move |ctx| {
            if is_susp && p == 0 && has_async {
                // C20: one asynchronous send stays suspended until every other producer has finished its work
                let v = 7000u32;
                let gate = Arc::new(AtomicBool::new(false));
                let pos = ctx.call(p, &format!("{} {v}", if kind.starts_with('z') { "asynczc" } else { "asyncmov" }));
                let mut fut = std::mem::ManuallyDrop::new(ch.async_start(v, gate.clone()));
                let w: Waker = Arc::new(FlagWaker(AtomicBool::new(false))).into();
                let mut cx = Context::from_waker(&w);
                match fut.as_mut().poll(&mut cx) {
                    Poll::Ready(ok) => { ctx.ret(if ok { "ok" } else { "full" }); sh.lock().unwrap().evs.push(Ev { who: p, what: if ok { "sent".into() } else { "rejected".into() }, v, pos }); }
                    Poll::Pending => {
                        ctx.ret("susp");
                        sh.lock().unwrap().evs.push(Ev { who: p, what: "suspended".into(), v, pos });
                        let od = others_done.clone();
                        ctx.block_until(Box::new(move || od.load(SeqCst) == nprod_total - 1));
                        sh.lock().unwrap().evs.push(Ev { who: p, what: "others_returned".into(), v, pos });
                        // ... and what they sent meanwhile must reach the streams (driven by their wakers only) WITHOUT this send being resumed
                        let sh2 = sh.clone();
                        ctx.block_until(Box::new(move || {
                            let s = sh2.lock().unwrap();
                            s.evs.iter().filter(|e| e.what == "sent").all(|e| s.evs.iter().filter(|g| g.what == "got" && g.v == e.v).count() >= copies)
                        }));
                        sh.lock().unwrap().evs.push(Ev { who: p, what: "others_finished".into(), v, pos });
                        // everything the others sent was delivered and this send is still suspended (it has published nothing): nothing awaits
                        // consumption -- what flush() / a graceful close() wait for must say so
                        let pend = ch.pending();
                        if pend != 0 { sh.lock().unwrap().evs.push(Ev { who: p, what: "pending_while_suspended".into(), v: pend, pos }); }
                        gate.store(true, SeqCst);
                        ctx.call(p, "resume");
                        // its setter has completed and nobody else is active: re-polled like a yielding task, the send must come back
                        let mut tries = 0;
                        loop {
                            match fut.as_mut().poll(&mut cx) {
                                Poll::Ready(ok) => { ctx.ret(if ok { "ok" } else { "full" }); sh.lock().unwrap().evs.push(Ev { who: p, what: if ok { "sent".into() } else { "rejected".into() }, v, pos }); break }
                                Poll::Pending => {
                                    tries += 1;
                                    if tries > 60 { ctx.ret("stuck"); sh.lock().unwrap().evs.push(Ev { who: p, what: "async_waits".into(), v, pos }); break }
                                    ctx.yield_point("h.repoll", 0);
                                }
                            }
                        }
                    }
                }
                prod_done.fetch_add(1, SeqCst);
                return
            }
            for i in 0..nops {
                let v = (p as u32 + 1) * 1000 + i as u32;
                // (susp: the other producers use plain sends -- and, where the channel allocates before the await, asynchronous ones too)
                let c = if is_susp { if zc && kind != "mcrossbeam" { orng.below(9) } else { orng.below(6) } } else { orng.below(10) };
                // (mid: a plain send behind a suspended reservation spins at its publication CAS, a yield point there -- allowed)
                let plain_ok = is_susp || is_mid || susp_fifo.lock().unwrap().is_empty() || kind != "matomic";
                if c < 4 && plain_ok {
                    let pos = ctx.call(p, &format!("send {v}"));
                    let ok = ch.send(v);
                    ctx.ret(if ok { "ok" } else { "full" });
                    sh.lock().unwrap().evs.push(Ev { who: p, what: if ok { "sent".into() } else { "rejected".into() }, v, pos });
                } else if c < 6 && plain_ok {
                    let pos = ctx.call(p, &format!("sendwith {v}"));
                    let ok = ch.send_with(v);
                    ctx.ret(if ok { "ok" } else { "full" });
                    sh.lock().unwrap().evs.push(Ev { who: p, what: if ok { "sent".into() } else { "rejected".into() }, v, pos });
                } else if c < 9 && (zc || (mov_async_ok && !no_mov_async)) && kind != "mcrossbeam" {
                    // asynchronous send: poll once (reserves / allocates, suspends), yield for a while, resume
                    let gate = Arc::new(AtomicBool::new(false));
                    let pos = ctx.call(p, &format!("{} {v}", if zc { "asynczc" } else { "asyncmov" }));
                    let mut fut = ch.async_start(v, gate.clone());
                    let w: Waker = Arc::new(FlagWaker(AtomicBool::new(false))).into();
                    let mut cx = Context::from_waker(&w);
                    match fut.as_mut().poll(&mut cx) {
                        Poll::Ready(ok) => { ctx.ret(if ok { "ok" } else { "full" }); sh.lock().unwrap().evs.push(Ev { who: p, what: if ok { "sent".into() } else { "rejected".into() }, v, pos }); }
                        Poll::Pending => {
                            ctx.ret("susp");
                            if !zc { susp_fifo.lock().unwrap().push(p); }
                            // stay suspended for a random number of scheduler turns
                            for _ in 0..orng.below(4) { ctx.yield_point("h.susp", 0); }
                            if !zc && !fine {
                                // movable atomic: publications complete in reservation order -- wait for our turn (at the fine
                                // granularity the wait inside publish_leaked_internal is itself visible to the scheduler)
                                let (f2, me) = (susp_fifo.clone(), p);
                                ctx.block_until(Box::new(move || f2.lock().unwrap().first() == Some(&me)));
                            }
                            gate.store(true, SeqCst);
                            ctx.call(p, "resume");
                            // its setter has completed: the send must now complete by itself (it is re-polled as an executor would
                            // re-poll a task that yields), whatever other sends are suspended meanwhile
                            let mut tries = 0;
                            loop {
                                match fut.as_mut().poll(&mut cx) {
                                    Poll::Ready(ok) => { ctx.ret(if ok { "ok" } else { "full" }); sh.lock().unwrap().evs.push(Ev { who: p, what: if ok { "sent".into() } else { "rejected".into() }, v, pos }); break }
                                    Poll::Pending => {
                                        tries += 1;
                                        if tries > 60 { ctx.ret("stuck"); sh.lock().unwrap().evs.push(Ev { who: p, what: "async_stuck".into(), v, pos }); std::mem::forget(fut); break }
                                        ctx.yield_point("h.repoll", 0);
                                    }
                                }
                            }
                            if !zc { let mut f = susp_fifo.lock().unwrap(); if let Some(i) = f.iter().position(|x| *x == p) { f.remove(i); } }
                        }
                    }
                } else if plain_ok {
                    // reserve + fill + send-reserved (where implemented), else a plain send
                    // (mid: the retry loop of a reserved send has no yield point while another publication is paused in front of it)
                    let rsv = ch.has_rsv() && !is_mid;
                    let pos = ctx.call(p, &format!("{} {v}", if !rsv { "send" } else { "sendrsv" }));
                    let _ = pos;
                    let ok = if rsv { match ch.reserve_send(v) { Some(ok) => ok, None => ch.send(v) } } else { ch.send(v) };
                    ctx.ret(if ok { "ok" } else { "full" });
                    sh.lock().unwrap().evs.push(Ev { who: p, what: if ok { "sent".into() } else { "rejected".into() }, v, pos });
                }
            }
            prod_done.fetch_add(1, SeqCst);
        }));
    }
    // ---------------------------------------------------------------- stream tasks
    for (j, st) in streams.drain(..).enumerate() {
        // never dropped by unwinding (a run ended by the scheduler leaks it): dropped explicitly when the stream ended
        let mut st = std::mem::ManuallyDrop::new(st);
        let (sh, cons_done) = (sh.clone(), cons_done.clone());
        let mut orng = Rng::new(seed.wrapping_mul(977).wrapping_add(j as u64));
        bodies.push(Box::new(move |ctx| {
            let lt = 100 + j;
            let mut flag = Arc::new(FlagWaker(AtomicBool::new(false)));
            let mut tokn = j;
            let mut parked = false;
            let mut next_tok = 10 + j * 100;
            loop {
                if parked && !flag.0.load(SeqCst) {
                    // park -- or, rarely, poll spuriously (possibly through a new waker)
                    if orng.chance(1, 12) {
                        if orng.chance(1, 2) { flag = Arc::new(FlagWaker(AtomicBool::new(false))); next_tok += 1; tokn = next_tok; }
                    } else {
                        let f2 = flag.clone();
                        ctx.block_until(Box::new(move || f2.0.load(SeqCst)));
                    }
                }
                flag.0.store(false, SeqCst);
                let pos = ctx.call(lt, &format!("poll {j} {tokn}"));
                sh.lock().unwrap().evs.push(Ev { who: lt, what: "pollcall".into(), v: 0, pos });
                let w: Waker = flag.clone().into();
                match st.poll(&w) {
                    Poll::Ready(Some((v, h))) => {
                        ctx.ret(&format!("item {v}"));
                        parked = false;
                        let mut s = sh.lock().unwrap();
                        s.evs.push(Ev { who: lt, what: "got".into(), v, pos });
                        if let Some(h) = h { s.handles.push(h); }
                        drop(s);
                        // release payload handles now and then (zero-copy capacity)
                        let rel = { let mut s = sh.lock().unwrap(); if !s.handles.is_empty() && orng.chance(2, 3) { Some(s.handles.remove(0)) } else { None } };
                        if let Some(h) = rel { ctx.call(lt, "release"); drop(h); }
                    }
                    Poll::Ready(None) => {
                        ctx.ret("end"); sh.lock().unwrap().evs.push(Ev { who: lt, what: "end".into(), v: 0, pos });
                        ctx.call(lt, &format!("drop {j}"));
                        unsafe { std::mem::ManuallyDrop::drop(&mut st); }
                        ctx.ret("dropped");
                        break
                    }
                    Poll::Pending => { ctx.ret("pending"); parked = true; }
                }
            }
            cons_done.fetch_add(1, SeqCst);
        }));
    }
    // ---------------------------------------------------------------- cancel requests (sub = cancel)
    let cancelled: Arc<Mutex<Vec<usize>>> = Arc::new(Mutex::new(vec![]));
    if sub == Sub::Cancel {
        let (ch, cancelled, sh) = (ch.clone(), cancelled.clone(), sh.clone());
        let targets: Vec<usize> = (0..k).filter(|_| rng.chance(2, 3)).collect();
        let delay = rng.below(12);
        let me = np + k;
        bodies.push(Box::new(move |ctx| {
            for _ in 0..delay { ctx.yield_point("h.delay", 0); }
            for j in targets {
                sh.lock().unwrap().evs.push(Ev { who: me, what: "cancelcall".into(), v: j as u32, pos: 0 });
                ctx.call(me, &format!("cancel {j}"));
                ch.cancel_stream(j as u32);
                ctx.ret("unit");
                cancelled.lock().unwrap().push(j);
            }
        }));
    }
    // ---------------------------------------------------------------- finalizer
    {
        let (ch, sh, prod_done, cons_done, drained) = (ch.clone(), sh.clone(), prod_done.clone(), cons_done.clone(), drained.clone());
        let me = 90;
        let nprod = np;
        let cancelled = cancelled.clone();
        bodies.push(Box::new(move |ctx| {
            let pd = prod_done.clone();
            ctx.block_until(Box::new(move || pd.load(SeqCst) == nprod));
            // every accepted event must reach a stream without any further send / flush / close
            let (ch2, c2, kk) = (ch.clone(), cancelled.clone(), k);
            ctx.block_until(Box::new(move || ch2.pending() == 0 || c2.lock().unwrap().len() == kk));
            drained.store(true, SeqCst);
            // release what is still held, then end the streams
            loop { let h = sh.lock().unwrap().handles.pop(); match h { Some(h) => { ctx.call(me, "release"); drop(h); } None => break } }
            for j in 0..k { if !cancelled.lock().unwrap().contains(&j) { ctx.call(me, &format!("cancel {j}")); ch.cancel_stream(j as u32); ctx.ret("unit"); } }
            let cd = cons_done.clone();
            ctx.block_until(Box::new(move || cd.load(SeqCst) == k));
        }));
    }
    let mut cfg = Config::new(seed, if sub == Sub::Fine || sub == Sub::Susp { filter_fine } else if sub == Sub::Mid { filter_mid } else { filter_coarse });
    cfg.replay = replay;
    cfg.stall_limit = 6000;
    let outcome = sched::run(cfg, bodies);
    // ---------------------------------------------------------------- oracle
    let mut viol = vec![];
    let s = sh.lock().unwrap();
    let sent: Vec<&Ev> = s.evs.iter().filter(|e| e.what == "sent").collect();
    let got: Vec<&Ev> = s.evs.iter().filter(|e| e.what == "got").collect();
    let mut seen = std::collections::HashMap::new();
    for g in &got {
        if g.v < 500 || (g.v >= 600 && !sent.iter().any(|e| e.v == g.v)) { if !(500..600).contains(&g.v) { viol.push(("invented".into(), format!("stream {} yielded {} which no successful send carried", g.who - 100, g.v))); } }
        if let Some(p) = seen.insert(g.v, g.who) { if !(is_multi && k > 1 && p != g.who) { viol.push(("duplicate".into(), format!("event {} yielded twice (streams {} and {})", g.v, p - 100, g.who - 100))); } }
    }
    for e in s.evs.iter().filter(|e| e.what == "async_stuck") {
        let other_suspended = s.evs.iter().any(|x| x.what == "suspended") && !s.evs.iter().any(|x| x.what == "others_finished");
        viol.push(("blocked_by_suspended_send".into(), format!("the send_with_async of event {} (producer {}) stayed pending through 60 re-polls after its own setter had completed{} (kind {kind})", e.v, e.who, if other_suspended { " while another send_with_async was suspended" } else { "" })));
    }
    for e in s.evs.iter().filter(|e| e.what == "pending_while_suspended") {
        viol.push(("blocked_by_suspended_send".into(), format!("while a send_with_async is suspended (it has published nothing) and everything the other producers sent was delivered, pending_items_count() reports {} on the {kind} channel: a flush() or graceful close() issued now waits for the suspended send", e.v)));
    }
    for e in s.evs.iter().filter(|e| e.what == "async_waits") {
        viol.push(("async_send_never_returned".into(), format!("the send_with_async of event {} (producer {}) stayed pending through 60 re-polls after its setter had completed and every other producer had finished ({} event(s) pending, kind {kind}): it neither accepted nor rejected the event -- it waits", e.v, e.who, ch.pending())));
    }
    for r in s.evs.iter().filter(|e| e.what == "rejected") { if seen.contains_key(&r.v) { viol.push(("rejected_delivered".into(), format!("event {} was rejected (buffer full) but a stream yielded it", r.v))); } }
    // per-producer order within one stream
    for who in got.iter().map(|g| g.who).collect::<std::collections::BTreeSet<_>>() {
        let mut last: std::collections::HashMap<u32, u32> = Default::default();
        for g in got.iter().filter(|g| g.who == who) { let p = g.v / 1000; if let Some(l) = last.insert(p, g.v) { if l > g.v { viol.push(("order".into(), format!("stream {} yielded {} after {} (same producer)", who - 100, g.v, l))); } } }
    }
    match outcome.verdict {
        Verdict::Completed => {
            let all_cancelled = cancelled.lock().unwrap().len() == k;
            if !all_cancelled { for e in &sent { if !seen.contains_key(&e.v) { viol.push(("lost".into(), format!("event {} was accepted but never yielded although the streams were driven until the channel was empty", e.v))); } } }
            // a stream only ends when it finds nothing buffered: a poll that STARTED after the send of an event had returned
            // cannot answer end-of-stream while that event is never yielded to anybody (it was in the queue during that poll)
            for (ie, end) in s.evs.iter().enumerate().filter(|(_, e)| e.what == "end") {
                if let Some(ip) = s.evs[..ie].iter().rposition(|e| e.what == "pollcall" && e.who == end.who) {
                    for e in s.evs[..ip].iter().filter(|e| e.what == "sent") { if !seen.contains_key(&e.v) {
                        viol.push(("buffered_event_dropped_at_end".into(), format!("stream {} answered end-of-stream in a poll that started after the send of event {} had returned, yet no stream ever yielded that event: the stream ended with an accepted event buffered", end.who - 100, e.v))); } }
                }
            }
            if ch.running() != 0 && false { viol.push(("running_count".into(), format!("running streams count {} after all ended", ch.running()))); }
        }
        Verdict::Deadlock if s.evs.iter().any(|e| e.what == "suspended") && !s.evs.iter().any(|e| e.what == "others_finished") => {
            if s.evs.iter().any(|e| e.what == "others_returned") {
                let undelivered: Vec<u32> = sent.iter().filter(|e| !seen.contains_key(&e.v)).map(|e| e.v).collect();
                viol.push(("blocked_by_suspended_send".into(), format!("while one send_with_async stayed suspended every other producer returned, yet the events {undelivered:?} they sent meanwhile were not delivered: every stream is parked with its waker not invoked -- they would only be delivered once the suspended send is resumed (kind {kind}, {} event(s) pending)", ch.pending())));
            } else {
                viol.push(("blocked_by_suspended_send".into(), format!("while one send_with_async stayed suspended, another operation on the {kind} channel never returned (every other thread is waiting for it)")));
            }
        }
        Verdict::Deadlock => {
            if !drained.load(SeqCst) {
                let pending = ch.pending();
                let c = cancelled.lock().unwrap().clone();
                // (a producer that panicked never reports `done`: with nothing pending this is the aftermath of the panic, reported below)
                if !(pending == 0 && c.is_empty() && outcome.panics.iter().any(|p| p.is_some())) {
                // which streams are parked and un-notified
                viol.push((if sub == Sub::Cancel && !c.is_empty() && pending == 0 { "cancelled_stream_never_ended" }
                           else if sub == Sub::Cancel && !c.is_empty() && c.len() < k { "untargeted_stream_starved" } else { "lost_wakeup" }.into(),
                           format!("every producer returned, every live stream is parked with its waker not invoked, and {pending} accepted event(s) are still pending (kind {kind}, N={n}, MAX_STREAMS={mx}, {k} stream(s))")));
                }
            } else {
                viol.push(("cancelled_stream_never_ended".into(), "a stream that was told to end stayed parked: its waker was never invoked after the request".into()));
            }
        }
        ref v => {
            let susp = s.evs.iter().any(|e| e.what == "suspended") && !s.evs.iter().any(|e| e.what == "others_finished");
            if susp { viol.push(("blocked_by_suspended_send".into(), format!("while one send_with_async stayed suspended, another operation on the {kind} channel never returned (scheduler verdict {v:?}: it keeps re-trying an access only the suspended producer can release)"))); }
            else { viol.push(("no_progress".into(), format!("run ended with verdict {v:?}: an operation never returned"))); }
        }
    }
    // cause class of a lost wake-up: what did the last publication do?
    if let Some(v) = viol.iter_mut().find(|v| v.0 == "lost_wakeup") {
        let tr = &outcome.trace;
        // the last completed publishing call
        let mut cause = "unclassified".to_string();
        if let Some(rpos) = tr.iter().rposition(|l| l.starts_with("ret ") && l.ends_with(" ok")) {
            let t = tr[rpos].split(' ').nth(1).unwrap().to_string();
            let cpos = tr[..rpos].iter().rposition(|l| l.starts_with(&format!("call {t} "))).unwrap_or(0);
            let op = tr[cpos].split(' ').nth(2).unwrap_or("?").to_string();
            let wakes: Vec<&String> = tr[cpos..rpos].iter().filter(|l| l.starts_with(&format!("pt {t} sm.wake "))).collect();
            cause = if wakes.is_empty() { format!("entry={op} no_wake_call") } else { format!("entry={op} woke_stream_{}", wakes[0].split(' ').nth(3).unwrap_or("?")) };
        }
        let am = tr.iter().any(|l| l.contains(" asyncmov "));
        v.1 = format!("[{cause} async_mov_used={am}] {}", v.1);
    }
    for (i, p) in outcome.panics.iter().enumerate() { if let Some(m) = p { viol.push(("panic".into(), format!("thread {i} panicked: {m}"))); } }
    drop(s);
    // a channel abandoned in the middle of an operation must not be dropped
    std::mem::forget(ch);
    let rule = match kind { "matomic" | "zatomic" => "atomic", "mcrossbeam" => "cb", "marc_atomic" | "mogre_atomic" => "m2", "marc_fullsync" | "mogre_fullsync" => "m1", "marc_crossbeam" => "mcb", _ => "fs" };
    let zc = if kind.starts_with("marc") { false } else { zc };   // Arc payloads live on the heap: no pool capacity
    let cfg = format!("cfg model=wake N={n} MAX={mx} k={k} rule={rule} zc={} pre={prequeued}{}", if zc { 1 } else { 0 }, if sub == Sub::Mid { " gran=mid" } else { "" });
    (outcome, viol, cfgkey, cfg)
}

fn main() {
    let a = Args::parse();
    let kind = a.get("kind", "mfullsync");
    let sub = match a.get("sub", "flow").as_str() { "cancel" => Sub::Cancel, "fine" => Sub::Fine, "susp" => Sub::Susp, "mid" => Sub::Mid, _ => Sub::Flow };
    let seed0 = a.num("seed", 1);
    let runs = a.num("runs", 100);
    let replay_dir = a.get("replay_dir", "");
    let pid = a.get("prop", "C");
    let mut out = TraceOut::new(&a.get("trace", ""));
    let subname = a.get("sub", "flow");
    let mut rep = Report::new(&format!("uni/{kind}/{subname}"));
    let single = a.kv.get("choices").map(|c| parse_choices(c));
    for i in 0..runs {
        let seed = if a.kv.contains_key("seedx") { a.num("seedx", 0) } else { seed0.wrapping_mul(1_000_003).wrapping_add(i) };
        mark_run(seed);
        let (o, viol, cfgkey, cfg) = run_one(&kind, sub, seed, single.clone());
        let nontrivial = o.trace.iter().any(|l| l.ends_with(" pending")) && o.trace.iter().any(|l| l.contains(" sm.wake "));
        rep.add_run(&o.trace, nontrivial, &cfgkey, &format!("{:?}", o.verdict));
        if sub == Sub::Flow || sub == Sub::Cancel || sub == Sub::Mid { out.write_run(&format!("{cfg} seed={seed} run={i}"), &o.trace); }
        for (k, d) in viol {
            let header = vec![format!("cmd uni kind={kind} sub={subname} runs=1 seedx={seed} choices={}", choices_str(&o.choices)), format!("violation {k}: {d}"), cfg.clone()];
            let path = write_replay(&replay_dir, &format!("{pid}-uni-{kind}-{subname}-seed{seed}-{k}"), &header, &o.trace);
            rep.violations.push(Violation { run: i, seed, kind: k, detail: d, replay: path });
        }
    }
    out.finish();
    rep.print();
}
