//! Scenario `handles`: the pool allocator with `OgreArc` / `OgreUnique` handles, 2-3 threads cloning / dropping / reading
//! handles of the same values under the baton scheduler (yield points = the reference-counter accesses `oa.*`; the pool's
//! free-list operations are atomic at this granularity).   (C14, C13, C05)
//!
//!   handles kind=atomic|fullsync seed=<s> runs=<r> trace=<file> replay_dir=<dir>

use std::sync::{Arc, Mutex, atomic::{AtomicU32, AtomicUsize, Ordering::SeqCst}};
use reactive_mutiny::prelude::advanced::{AllocatorAtomicArray, AllocatorFullSyncArray, BoundedOgreAllocator, OgreArc, OgreUnique};
use vh::sched::{self, Body, Config, Verdict};
use vh::util::*;

const MAXV: usize = 4096;
static DROPS: [AtomicU32; MAXV] = [const { AtomicU32::new(0) }; MAXV];

/// payload with a destructor: counts how often each value is destroyed
#[derive(Debug)]
pub struct Tracked { v: u32 }
impl Drop for Tracked { fn drop(&mut self) { if (self.v as usize) < MAXV { DROPS[self.v as usize].fetch_add(1, SeqCst); } } }

fn filter(tag: &str) -> bool { tag.starts_with("oa.") || tag.starts_with("pa.") }

trait Alloc: BoundedOgreAllocator<Tracked> + Send + Sync + std::fmt::Debug + 'static {}
impl<T: BoundedOgreAllocator<Tracked> + Send + Sync + std::fmt::Debug + 'static> Alloc for T {}

struct Shared<A: Alloc> {
    /// live shared handles, per control block (in creation order)
    arcs: Vec<Vec<OgreArc<Tracked, A>>>,
    owed: Vec<u32>,
    uniques: Vec<OgreUnique<Tracked, A>>,
    /// value written per control block
    vals: Vec<u32>,
    created: Vec<u32>,
    violations: Vec<(String, String)>,
}

fn run_one<A: Alloc, const N: usize>(seed: u64, replay: Option<Vec<u8>>) -> (sched::Outcome, Vec<(String, String)>, String, u32) {
    for d in DROPS.iter() { d.store(0, SeqCst); }
    let alloc: &'static A = Box::leak(Box::new(A::new()));
    let sh: Arc<Mutex<Shared<A>>> = Arc::new(Mutex::new(Shared { arcs: vec![], owed: vec![], uniques: vec![], vals: vec![], created: vec![], violations: vec![] }));
    let mut rng = Rng::new(seed ^ 0x7777);
    let nt = rng.range(2, 3) as usize;
    let done = Arc::new(AtomicUsize::new(0));
    let next_v = Arc::new(AtomicU32::new(1));
    let cfgkey = format!("N{N}/t{nt}");
    let mut bodies: Vec<Body> = vec![];
    for t in 0..nt {
        let nops = rng.range(4, 14) as usize;
        let mut orng = Rng::new(seed.wrapping_mul(31).wrapping_add(t as u64));
        let (sh, done, next_v) = (sh.clone(), done.clone(), next_v.clone());
        bodies.push(Box::new(move |ctx| {
            let me = ctx.tid();
            for _ in 0..nops {
                let choice = orng.below(12);
                // pick a control block that has a usable handle
                let pick_cb = |sh: &Shared<A>, r: &mut Rng| -> Option<usize> {
                    let c: Vec<usize> = (0..sh.arcs.len()).filter(|&i| !sh.arcs[i].is_empty()).collect();
                    if c.is_empty() { None } else { Some(c[r.below(c.len() as u64) as usize]) }
                };
                match choice {
                    0 | 1 => {
                        let k = orng.range(1, 3) as usize;
                        let v = next_v.fetch_add(1, SeqCst);
                        ctx.call(me, &format!("newarc {v} {k}"));
                        let setter = |slot: &mut Tracked| unsafe { std::ptr::write(slot, Tracked { v }) };
                        let hs: Option<Vec<OgreArc<Tracked, A>>> = match k {
                            1 => OgreArc::new_with_clones::<1, _>(setter, alloc).map(|a| a.into_iter().collect()),
                            2 => OgreArc::new_with_clones::<2, _>(setter, alloc).map(|a| a.into_iter().collect()),
                            _ => OgreArc::new_with_clones::<3, _>(setter, alloc).map(|a| a.into_iter().collect()),
                        };
                        let mut s = sh.lock().unwrap();
                        match hs {
                            Some(hs) => { let i = s.arcs.len(); s.arcs.push(hs); s.owed.push(0); s.vals.push(v); s.created.push(v); drop(s); ctx.ret(&format!("arc {i}")); }
                            None => { drop(s); ctx.ret("none"); }
                        }
                    }
                    2 | 3 => {
                        let h = { let mut s = sh.lock().unwrap(); pick_cb(&s, &mut orng).map(|i| (i, s.arcs[i].pop().unwrap())) };
                        if let Some((i, h)) = h {
                            ctx.call(me, &format!("clone {i}"));
                            let h2 = h.clone();
                            let mut s = sh.lock().unwrap(); s.arcs[i].push(h); s.arcs[i].push(h2); drop(s);
                            ctx.ret(&format!("arc {i}"));
                        }
                    }
                    4 | 5 | 6 => {
                        let h = { let mut s = sh.lock().unwrap(); pick_cb(&s, &mut orng).map(|i| (i, s.arcs[i].pop().unwrap())) };
                        if let Some((i, h)) = h {
                            ctx.call(me, &format!("droparc {i}"));
                            drop(h);
                            ctx.ret("unit");
                        }
                    }
                    7 => {
                        let h = { let mut s = sh.lock().unwrap(); pick_cb(&s, &mut orng).map(|i| (i, s.arcs[i].pop().unwrap())) };
                        if let Some((i, h)) = h {
                            ctx.call(me, &format!("count {i}"));
                            let n = h.references_count();
                            sh.lock().unwrap().arcs[i].push(h);
                            ctx.ret(&format!("count {n}"));
                        }
                    }
                    8 => {
                        let h = { let mut s = sh.lock().unwrap(); pick_cb(&s, &mut orng).map(|i| (i, s.arcs[i].pop().unwrap())) };
                        if let Some((i, h)) = h {
                            ctx.call(me, &format!("deref {i}"));
                            let v = h.v;
                            let mut s = sh.lock().unwrap();
                            if v != s.vals[i] { let e = s.vals[i]; s.violations.push(("deref_changed".into(), format!("a live shared handle of value {e} dereferenced to {v}"))); }
                            if DROPS[s.vals[i] as usize].load(SeqCst) != 0 { let e = s.vals[i]; s.violations.push(("destroyed_while_held".into(), format!("value {e} was destroyed while a shared handle is live"))); }
                            s.arcs[i].push(h); drop(s);
                            ctx.ret(&format!("value {v}"));
                        }
                    }
                    9 => {
                        // bulk increment + raw copies (as the Multi ogre_arc channels do)
                        let h = { let mut s = sh.lock().unwrap(); pick_cb(&s, &mut orng).map(|i| (i, s.arcs[i].pop().unwrap())) };
                        if let Some((i, h)) = h {
                            let k = orng.range(1, 2) as u32;
                            ctx.call(me, &format!("increfs {i} {k}"));
                            unsafe { h.increment_references(k); }
                            ctx.ret("unit");
                            for _ in 0..k {
                                ctx.call(me, &format!("rawcopy {i}"));
                                let c = unsafe { h.raw_copy() };
                                sh.lock().unwrap().arcs[i].push(c);
                                ctx.ret(&format!("arc {i}"));
                            }
                            sh.lock().unwrap().arcs[i].push(h);
                        }
                    }
                    10 => {
                        let v = next_v.fetch_add(1, SeqCst);
                        ctx.call(me, &format!("newunique {v}"));
                        let u = OgreUnique::new(|slot: &mut Tracked| unsafe { std::ptr::write(slot, Tracked { v }) }, alloc);
                        match u {
                            Some(u) => { let id = alloc.id_from_ref(&*u); let mut s = sh.lock().unwrap(); s.uniques.push(u); s.created.push(v); drop(s); ctx.ret(&format!("unique {id}")); }
                            None => { ctx.ret("none"); }
                        }
                    }
                    _ => {
                        let u = { let mut s = sh.lock().unwrap(); if s.uniques.is_empty() { None } else { let k = orng.below(s.uniques.len() as u64) as usize; Some(s.uniques.remove(k)) } };
                        if let Some(u) = u {
                            let id = alloc.id_from_ref(&*u);
                            match orng.below(3) {
                                0 => { ctx.call(me, &format!("dropunique {id}")); drop(u); ctx.ret("unit"); }
                                1 => { ctx.call(me, &format!("derefunique {id}")); let v = u.v; sh.lock().unwrap().uniques.push(u); ctx.ret(&format!("value {v}")); }
                                _ => {
                                    ctx.call(me, &format!("intoarc {id}"));
                                    let v = u.v;
                                    let a = u.into_ogre_arc();
                                    let mut s = sh.lock().unwrap(); let i = s.arcs.len(); s.arcs.push(vec![a]); s.owed.push(0); s.vals.push(v); drop(s);
                                    ctx.ret(&format!("arc {i}"));
                                }
                            }
                        }
                    }
                }
            }
            done.fetch_add(1, SeqCst);
        }));
    }
    // finalizer: releases every remaining handle, then checks destructor counts and pool capacity
    {
        let (sh, done) = (sh.clone(), done.clone());
        let others = nt;
        bodies.push(Box::new(move |ctx| {
            let me = ctx.tid() + 50;
            let d2 = done.clone();
            ctx.block_until(Box::new(move || d2.load(SeqCst) == others));
            loop {
                let h = { let mut s = sh.lock().unwrap(); let c: Vec<usize> = (0..s.arcs.len()).filter(|&i| !s.arcs[i].is_empty()).collect(); c.first().map(|&i| (i, s.arcs[i].pop().unwrap())) };
                match h { Some((i, h)) => { ctx.call(me, &format!("droparc {i}")); drop(h); ctx.ret("unit"); } None => break }
            }
            loop {
                let u = sh.lock().unwrap().uniques.pop();
                match u { Some(u) => { let id = alloc.id_from_ref(&*u); ctx.call(me, &format!("dropunique {id}")); drop(u); ctx.ret("unit"); } None => break }
            }
            // capacity restored: exactly N allocations succeed
            let mut got = vec![];
            for i in 0..N + 1 {
                ctx.call(me, &format!("newunique {}", 3000 + i));
                let v = 3000 + i as u32;
                match OgreUnique::new(|slot: &mut Tracked| unsafe { std::ptr::write(slot, Tracked { v }) }, alloc) {
                    Some(u) => { let id = alloc.id_from_ref(&*u); ctx.ret(&format!("unique {id}")); got.push(u); }
                    None => { ctx.ret("none"); }
                }
            }
            ctx.note(format!("refill {}", got.len()));
            let ids: Vec<u32> = got.iter().map(|u| alloc.id_from_ref(&**u)).collect();
            let mut sorted = ids.clone(); sorted.sort(); sorted.dedup();
            if sorted.len() != ids.len() { sh.lock().unwrap().violations.push(("slot_two_owners".into(), format!("allocations returned the ids {ids:?}: one slot handed out twice"))); }
            for u in got { let id = alloc.id_from_ref(&*u); ctx.call(me, &format!("dropunique {id}")); drop(u); ctx.ret("unit"); }
        }));
    }
    let mut cfg = Config::new(seed, filter);
    cfg.replay = replay;
    let outcome = sched::run(cfg, bodies);
    let mut viol = std::mem::take(&mut sh.lock().unwrap().violations);
    let mut refill = 0;
    if outcome.verdict == Verdict::Completed {
        let s = sh.lock().unwrap();
        for &v in &s.created {
            let d = DROPS[v as usize].load(SeqCst);
            if d != 1 { viol.push((if d == 0 { "never_destroyed" } else { "destroyed_twice" }.into(), format!("value {v}: destructor ran {d} times after every handle was released"))); }
        }
        for l in &outcome.trace { if let Some(k) = l.strip_prefix("refill ") { refill = k.parse().unwrap_or(0); if refill as usize != N { viol.push(("capacity_not_restored".into(), format!("after releasing every handle {k} of {} allocations succeeded (expected exactly N={N})", N + 1))); } } }
        let dbg = format!("{:?}", alloc);
        if !dbg.contains(&format!("free_slots_count: {N}")) { viol.push(("pool_not_full".into(), format!("allocator reports {dbg} after everything was released"))); }
    } else {
        viol.push(("no_progress".into(), format!("run ended with verdict {:?}", outcome.verdict)));
    }
    for (i, p) in outcome.panics.iter().enumerate() { if let Some(m) = p { viol.push(("panic".into(), format!("thread {i} panicked: {m}"))); } }
    (outcome, viol, cfgkey, refill)
}

/// free-running threads (no scheduler): a sole shared handle is cloned through `&` by several threads at once -- the
/// reference counter must not lose an update (an atomicity below the granularity of the scheduled scenario)
/// `sub=shared`: ONE handle (reference count 1) shared BY REFERENCE between 2-3 threads that clone it, bulk-increment it
/// (+ raw copies) and read its count, under the scheduler (yield points at every reference-counter access): the count must
/// never lose an update, the value must not be destroyed while a handle lives.
fn run_shared<A: Alloc>(seed: u64, replay: Option<Vec<u8>>) -> (sched::Outcome, Vec<(String, String)>, String) {
    for d in DROPS.iter() { d.store(0, SeqCst); }
    let alloc: &'static A = Box::leak(Box::new(A::new()));
    let mut rng = Rng::new(seed ^ 0x5A5A);
    let v = 7u32;
    let base: &'static OgreArc<Tracked, A> = Box::leak(Box::new(OgreArc::new_with(|slot: &mut Tracked| unsafe { std::ptr::write(slot, Tracked { v }) }, alloc).expect("pool")));
    let made: Arc<Mutex<Vec<OgreArc<Tracked, A>>>> = Arc::new(Mutex::new(vec![]));
    let nt = rng.range(2, 3) as usize;
    let done = Arc::new(AtomicUsize::new(0));
    let mut bodies: Vec<Body> = vec![];
    // the trace speaks the protocol of the handles model: control block 0 was created with one handle
    for t in 0..nt {
        let nops = rng.range(1, 3) as usize;
        let mut orng = Rng::new(seed.wrapping_mul(77).wrapping_add(t as u64));
        let (made, done) = (made.clone(), done.clone());
        bodies.push(Box::new(move |ctx| {
            let me = ctx.tid();
            if t == 0 { ctx.call(me, &format!("newarc {v} 1")); ctx.ret("arc 0"); }
            else { let d2 = done.clone(); let _ = d2; }
            for _ in 0..nops {
                match orng.below(3) {
                    0 => { ctx.call(me, "clone 0"); let c = base.clone(); made.lock().unwrap().push(c); ctx.ret("arc 0"); }
                    1 => {
                        let k = orng.range(1, 2) as u32;
                        ctx.call(me, &format!("increfs 0 {k}"));
                        unsafe { base.increment_references(k); }
                        ctx.ret("unit");
                        for _ in 0..k { ctx.call(me, "rawcopy 0"); let c = unsafe { base.raw_copy() }; made.lock().unwrap().push(c); ctx.ret("arc 0"); }
                    }
                    _ => { ctx.call(me, "count 0"); let n = base.references_count(); ctx.ret(&format!("count {n}")); }
                }
            }
            done.fetch_add(1, SeqCst);
        }));
    }
    let mut cfg = Config::new(seed, filter);
    cfg.replay = replay;
    // thread 0 must announce the control block before anybody uses it: the other threads start after its first call
    let outcome = sched::run(cfg, bodies);
    let mut viol = vec![];
    if outcome.verdict != Verdict::Completed { viol.push(("no_progress".into(), format!("{:?}", outcome.verdict))); }
    for (i, p) in outcome.panics.iter().enumerate() { if let Some(m) = p { viol.push(("panic".into(), format!("thread {i} panicked: {}", &m[..m.len().min(200)]))); } }
    let handles = std::mem::take(&mut *made.lock().unwrap());
    let live = 1 + handles.len() as u32;
    reactive_mutiny::verif::participate(false);
    let count = base.references_count();
    if count != live {
        viol.push(("lost_refcount_update".into(), format!("{live} handles on the value are alive (the shared one + {} clones / raw copies made through it by {nt} threads) but references_count() reads {count}", live - 1)));
        for h in handles { std::mem::forget(h); }       // dropping them would destroy the value under a live handle
    } else {
        for h in handles { drop(h); }
        if DROPS[v as usize].load(SeqCst) != 0 { viol.push(("destroyed_while_held".into(), format!("value {v} was destroyed although the shared handle is still alive"))); }
    }
    (outcome, viol, format!("shared/t{nt}"))
}

fn free_run<A: Alloc>(iters: u32, seed: u64) -> Vec<(String, String)> {
    let alloc: &'static A = Box::leak(Box::new(A::new()));
    let mut viol = vec![];
    let mut rng = Rng::new(seed);
    for it in 0..iters {
        let v = 1 + (it % 4000);
        DROPS[v as usize].store(0, SeqCst);
        let original = match OgreArc::new_with(|slot: &mut Tracked| unsafe { std::ptr::write(slot, Tracked { v }) }, alloc) { Some(a) => a, None => { viol.push(("pool_exhausted".into(), format!("iteration {it}: the pool did not get its slot back"))); break } };
        let nthreads = 2 + (rng.below(2) as usize);
        let barrier = std::sync::Barrier::new(nthreads);
        let clones: Vec<OgreArc<Tracked, A>> = std::thread::scope(|sc| {
            let hs: Vec<_> = (0..nthreads).map(|_| sc.spawn(|| { barrier.wait(); original.clone() })).collect();
            hs.into_iter().map(|h| h.join().unwrap()).collect()
        });
        let count = original.references_count();
        if count as usize != 1 + nthreads { viol.push(("lost_refcount_update".into(), format!("iteration {it}: {} live shared handles (1 + {nthreads} concurrent clones of a sole handle) but references_count() = {count}", 1 + nthreads))); }
        drop(clones);
        if DROPS[v as usize].load(SeqCst) != 0 { viol.push(("destroyed_while_held".into(), format!("iteration {it}: the value was destroyed while the original handle is still alive"))); std::mem::forget(original); if viol.len() > 4 { break } continue }
        drop(original);
        if DROPS[v as usize].load(SeqCst) != 1 { viol.push(("destructor_count".into(), format!("iteration {it}: destructor ran {} times after the last handle was dropped", DROPS[v as usize].load(SeqCst)))); }
        if viol.len() > 4 { break }
    }
    viol
}

fn filter_pool(tag: &str) -> bool { tag.starts_with("am.") || tag.starts_with("fs.") || tag.starts_with("sync.") || tag.starts_with("pa.") }

/// `sub=pool` (C13): the bare pool allocator at the finest granularity — every access of the free-list ring is a yield point; 2-3 threads
/// allocate and free slots of a pool of 2 or 4.  Oracles: no slot with two owners; a failed allocation is wrong iff at EVERY instant of the
/// call the pool had a slot that no completed-or-later-successful allocation could have taken (pool size + deallocations RETURNED so far
/// exceeds the successful allocations CALLED so far) — the exact reading of "fails only if all were outstanding at some instant of the call".
fn run_pool<A: Alloc, const N: usize>(seed: u64, replay: Option<Vec<u8>>) -> (sched::Outcome, Vec<(String, String)>, String) {
    for d in DROPS.iter() { d.store(0, SeqCst); }
    let alloc: &'static A = Box::leak(Box::new(A::new()));
    let mut rng = Rng::new(seed ^ 0x9001);
    let nt = rng.range(2, 3) as usize;
    // (is_alloc, call line, return line, success)
    let spans: Arc<Mutex<Vec<(bool, usize, usize, bool)>>> = Arc::new(Mutex::new(vec![]));
    let owned: Arc<Mutex<Vec<u32>>> = Arc::new(Mutex::new(vec![]));
    let viols: Arc<Mutex<Vec<(String, String)>>> = Arc::new(Mutex::new(vec![]));
    let mut bodies: Vec<Body> = vec![];
    for t in 0..nt {
        let nops = rng.range(3, 9) as usize;
        let mut orng = Rng::new(seed.wrapping_mul(131).wrapping_add(t as u64));
        let (spans, owned, viols) = (spans.clone(), owned.clone(), viols.clone());
        bodies.push(Box::new(move |ctx| {
            let me = ctx.tid();
            let mut mine: Vec<OgreUnique<Tracked, A>> = vec![];
            for _ in 0..nops {
                if mine.is_empty() || orng.chance(3, 5) {
                    let v = 100 * (me as u32 + 1) + mine.len() as u32;
                    let c = ctx.call(me, &format!("newunique {v}"));
                    let u = OgreUnique::new(|slot: &mut Tracked| unsafe { std::ptr::write(slot, Tracked { v }) }, alloc);
                    match u {
                        Some(u) => {
                            let id = alloc.id_from_ref(&*u);
                            { let mut o = owned.lock().unwrap(); if o.contains(&id) { viols.lock().unwrap().push(("slot_two_owners".into(), format!("slot {id} was handed out while another handle owns it"))); } o.push(id); }
                            mine.push(u);
                            let r = ctx.ret(&format!("unique {id}"));
                            spans.lock().unwrap().push((true, c, r, true));
                        }
                        None => { let r = ctx.ret("none"); spans.lock().unwrap().push((true, c, r, false)); }
                    }
                } else {
                    let k = orng.below(mine.len() as u64) as usize;
                    let u = mine.remove(k);
                    let id = alloc.id_from_ref(&*u);
                    let c = ctx.call(me, &format!("dropunique {id}"));
                    { let mut o = owned.lock().unwrap(); o.retain(|x| *x != id); }
                    drop(u);
                    let r = ctx.ret("unit");
                    spans.lock().unwrap().push((false, c, r, true));
                }
            }
            for u in mine { let id = alloc.id_from_ref(&*u); let c = ctx.call(me, &format!("dropunique {id}")); owned.lock().unwrap().retain(|x| *x != id); drop(u); let r = ctx.ret("unit"); spans.lock().unwrap().push((false, c, r, true)); }
        }));
    }
    let mut cfg = Config::new(seed, filter_pool);
    cfg.replay = replay;
    let outcome = sched::run(cfg, bodies);
    let mut viol = std::mem::take(&mut *viols.lock().unwrap());
    if outcome.verdict != Verdict::Completed { viol.push(("no_progress".into(), format!("run ended with verdict {:?}", outcome.verdict))); }
    for (i, p) in outcome.panics.iter().enumerate() { if let Some(m) = p { viol.push(("panic".into(), format!("thread {i} panicked: {}", &m[..m.len().min(200)]))); } }
    let sp = spans.lock().unwrap().clone();
    for &(is_alloc, c, r, ok) in sp.iter() {
        if !is_alloc || ok { continue }
        // free(p) = N + deallocations returned at or before line p - successful allocations called at or before line p
        let always_free = (c..=r).all(|p| {
            let deallocs = sp.iter().filter(|x| !x.0 && x.2 <= p).count();
            let allocs = sp.iter().filter(|x| x.0 && x.3 && x.1 <= p).count();
            N + deallocs > allocs
        });
        if always_free { viol.push(("exhausted_while_free".into(), format!("the allocation of lines {c}..{r} failed although at every instant of the call the pool of {N} had a slot that no allocation had taken or could have taken (deallocations returned vs successful allocations called)"))); }
    }
    if outcome.verdict == Verdict::Completed {
        let dbg = format!("{:?}", alloc);
        if !dbg.contains(&format!("free_slots_count: {N}")) { viol.push(("pool_not_full".into(), format!("allocator reports {dbg} after everything was released"))); }
    }
    (outcome, viol, format!("pool/N{N}/t{nt}"))
}

fn main() {
    let a = Args::parse();
    if a.get("sub", "") == "pool" {
        let seed0 = a.num("seed", 1);
        let kind = a.get("kind", "atomic");
        let mut rep = Report::new(&format!("handles/pool/{kind}"));
        let single = a.kv.get("choices").map(|c| parse_choices(c));
        for i in 0..a.num("runs", 100) {
            let seed = if a.kv.contains_key("seedx") { a.num("seedx", 0) } else { seed0.wrapping_mul(1_000_003).wrapping_add(i) };
            mark_run(seed);
            let (o, viol, cfgkey) = match (kind.as_str(), seed % 2) {
                ("atomic", 0) => run_pool::<AllocatorAtomicArray<Tracked, 2>, 2>(seed, single.clone()),
                ("atomic", _) => run_pool::<AllocatorAtomicArray<Tracked, 4>, 4>(seed, single.clone()),
                (_, 0) => run_pool::<AllocatorFullSyncArray<Tracked, 2>, 2>(seed, single.clone()),
                (_, _) => run_pool::<AllocatorFullSyncArray<Tracked, 4>, 4>(seed, single.clone()),
            };
            let nontrivial = o.trace.iter().any(|l| l.starts_with("ret") && l.ends_with(" none"));
            rep.add_run(&o.trace, nontrivial, &format!("{kind}/{cfgkey}"), &format!("{:?}", o.verdict));
            for (k, d) in viol {
                let header = vec![format!("cmd handles sub=pool kind={kind} runs=1 seedx={seed} choices={}", choices_str(&o.choices)), format!("violation {k}: {d}")];
                let path = write_replay(&a.get("replay_dir", ""), &format!("{}-handles-pool-{kind}-seed{seed}-{k}", a.get("prop", "C")), &header, &o.trace);
                rep.violations.push(Violation { run: i, seed, kind: k, detail: d, replay: path });
            }
        }
        rep.print();
        return
    }
    if a.get("sub", "") == "freerun" {
        let mut rep = Report::new("handles/freerun");
        let iters = a.num("runs", 3000) as u32;
        let seed = a.num("seed", 1);
        let mut viol = free_run::<AllocatorAtomicArray<Tracked, 4>>(iters, seed);
        viol.extend(free_run::<AllocatorFullSyncArray<Tracked, 4>>(iters, seed + 1));
        rep.add_run(&[format!("freerun {iters} iterations x 2 allocators")], true, "freerun", "Completed");
        rep.add_run(&[format!("freerun seed {seed}")], true, "freerun", "Completed");
        rep.runs = 2 * iters as u64;
        for (k, d) in viol {
            let path = write_replay(&a.get("replay_dir", ""), &format!("{}-handles-freerun-seed{seed}-{k}", a.get("prop", "C")), &[format!("cmd handles sub=freerun runs={iters} seed={seed}"), format!("violation {k}: {d}")], &[]);
            rep.violations.push(Violation { run: 0, seed, kind: k, detail: d, replay: path });
        }
        rep.print();
        return
    }
    if a.get("sub", "") == "shared" {
        let seed0 = a.num("seed", 1);
        let mut rep = Report::new("handles/shared");
        let single = a.kv.get("choices").map(|c| parse_choices(c));
        for i in 0..a.num("runs", 100) {
            let seed = if a.kv.contains_key("seedx") { a.num("seedx", 0) } else { seed0.wrapping_mul(1_000_003).wrapping_add(i) };
            mark_run(seed);
            let (o, viol, cfgkey) = if i % 2 == 0 { run_shared::<AllocatorAtomicArray<Tracked, 4>>(seed, single.clone()) } else { run_shared::<AllocatorFullSyncArray<Tracked, 4>>(seed, single.clone()) };
            let nontrivial = o.trace.iter().filter(|l| l.contains(" oa.clone ") || l.contains(" oa.inc ")).count() > 1;
            rep.add_run(&o.trace, nontrivial, &cfgkey, &format!("{:?}", o.verdict));
            for (k, d) in viol {
                let header = vec![format!("cmd handles sub=shared runs=1 seedx={seed} choices={}", choices_str(&o.choices)), format!("violation {k}: {d}")];
                let path = write_replay(&a.get("replay_dir", ""), &format!("{}-handles-shared-seed{seed}-{k}", a.get("prop", "C")), &header, &o.trace);
                rep.violations.push(Violation { run: i, seed, kind: k, detail: d, replay: path });
            }
        }
        rep.print();
        return
    }
    let kind = a.get("kind", "atomic");
    let seed0 = a.num("seed", 1);
    let runs = a.num("runs", 100);
    let replay_dir = a.get("replay_dir", "");
    let pid = a.get("prop", "C");
    let mut out = TraceOut::new(&a.get("trace", ""));
    let mut rep = Report::new(&format!("handles/{kind}"));
    let single = a.kv.get("choices").map(|c| parse_choices(c));
    for i in 0..runs {
        let seed = if a.kv.contains_key("seedx") { a.num("seedx", 0) } else { seed0.wrapping_mul(1_000_003).wrapping_add(i) };
        mark_run(seed);
        let n = [2usize, 4, 8][(i % 3) as usize];
        let (o, viol, cfgkey, _) = match (kind.as_str(), n) {
            ("atomic", 2) => run_one::<AllocatorAtomicArray<Tracked, 2>, 2>(seed, single.clone()),
            ("atomic", 4) => run_one::<AllocatorAtomicArray<Tracked, 4>, 4>(seed, single.clone()),
            ("atomic", _) => run_one::<AllocatorAtomicArray<Tracked, 8>, 8>(seed, single.clone()),
            (_, 2) => run_one::<AllocatorFullSyncArray<Tracked, 2>, 2>(seed, single.clone()),
            (_, 4) => run_one::<AllocatorFullSyncArray<Tracked, 4>, 4>(seed, single.clone()),
            (_, _) => run_one::<AllocatorFullSyncArray<Tracked, 8>, 8>(seed, single.clone()),
        };
        let cfg = format!("cfg model=handles N={n} seed={seed} run={i} kind={kind}");
        let nontrivial = o.trace.iter().any(|l| l.contains(" oa.drop.dealloc ")) && o.trace.iter().filter(|l| l.contains(" oa.clone ") || l.contains(" oa.inc ")).count() > 0;
        rep.add_run(&o.trace, nontrivial, &format!("{kind}/{cfgkey}"), &format!("{:?}", o.verdict));
        out.write_run(&cfg, &o.trace);
        for (k, d) in viol {
            let header = vec![format!("cmd handles kind={kind} runs=1 seedx={seed} choices={}", choices_str(&o.choices)), format!("violation {k}: {d}"), cfg.clone()];
            let path = write_replay(&replay_dir, &format!("{pid}-handles-{kind}-seed{seed}-{k}"), &header, &o.trace);
            rep.violations.push(Violation { run: i, seed, kind: k, detail: d, replay: path });
        }
    }
    out.finish();
    rep.print();
}
