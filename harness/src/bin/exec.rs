//! Scenario `exec`: real `Uni`s with their tokio stream executors (history-level correspondence with model M10+M11).
//!
//!   exec sub=account|close seed=.. runs=.. trace=.. replay_dir=..  [rt=current|multi]
//!
//! * `account`: every executor kind x timeout / no timeout x instruments x concurrency limit 1..8 x random item sequences
//!              over {ok, err, slow, slow-then-err}; the counters handed to the close callback, the number of error-callback
//!              invocations and the maximum number of simultaneously running item futures are compared with the model (C11)
//! * `close`  : workloads (events buffered and / or in flight when `close()` is called) x item kinds x limits; the event
//!              log (accepted / yielded / finished / closeCalled / closeReturned / callback) must be a behaviour of the
//!              model's event machine and is judged by the oracle (C06, C12)
//! The tokio runtime is current-thread with a paused clock (deterministic) unless `rt=multi`.

use std::sync::{Arc, Mutex, atomic::{AtomicU32, AtomicI32, Ordering::SeqCst}};
use std::time::Duration;
use futures::StreamExt;
use reactive_mutiny::prelude::advanced::*;
use vh::util::*;

type DynErr = Box<dyn std::error::Error + Send + Sync>;
const METRICS: usize = Instruments::MetricsWithoutLogs.into();
const LOGMETRICS: usize = Instruments::LogsWithMetrics.into();
const NONE: usize = Instruments::NoInstruments.into();
const EXPMETRICS: usize = Instruments::ExpensiveMetricsWithoutLogs.into();
const LOGEXPMETRICS: usize = Instruments::LogsWithExpensiveMetrics.into();
const TIMEOUT_MS: u64 = 50;
/// the futures timeout of the current run, in microseconds (a third of the runs with a timeout use a SUB-MILLISECOND one: 700 us)
static TIMEOUT_US: std::sync::atomic::AtomicU64 = std::sync::atomic::AtomicU64::new(TIMEOUT_MS * 1000);

static LOG: Mutex<Vec<String>> = Mutex::new(Vec::new());
fn ev(s: String) { LOG.lock().unwrap().push(s); }

struct Guard(u32, Arc<AtomicI32>);
impl Drop for Guard { fn drop(&mut self) { self.1.fetch_sub(1, SeqCst); ev(format!("call 0 finished {}", self.0)); } }

/// outcome codes carried by the events: value = index * 10 + code
fn code(v: u32) -> u32 { v % 10 }   // 0 ok, 1 err, 2 slow, 3 slow-then-err, 4 err whose own error type is tokio's `Elapsed`

#[derive(Default)]
struct Obs { ok: u32, failed: u32, timed_out: u32, on_err: u32, max_inflight: i32, callbacks: u32, status_ended: bool, finish_ge_start: bool }

async fn item_future(v: u32, inflight: Arc<AtomicI32>, maxin: Arc<AtomicI32>, log_events: bool) -> Result<u32, DynErr> {
    let n = inflight.fetch_add(1, SeqCst) + 1;
    maxin.fetch_max(n, SeqCst);
    let _g = if log_events { Some(Guard(v, inflight.clone())) } else { None };
    struct Dec(Arc<AtomicI32>, bool); impl Drop for Dec { fn drop(&mut self) { if self.1 { self.0.fetch_sub(1, SeqCst); } } }
    let _d = Dec(inflight.clone(), !log_events);
    match code(v) {
        0 => Ok(v),
        1 => Err(format!("item {v} failed").into()),
        2 => { tokio::time::sleep(Duration::from_millis(3 * TIMEOUT_MS)).await; Ok(v) }
        // an item that fails FAST with an error of its own that happens to be a timeout of something it used
        4 => Err(Box::new(tokio::time::timeout(Duration::from_millis(1), std::future::pending::<()>()).await.unwrap_err())),
        _ => { tokio::time::sleep(Duration::from_millis(3 * TIMEOUT_MS)).await; Err(format!("item {v} failed late").into()) }
    }
}

fn read_stats(e: &Arc<dyn reactive_mutiny::stream_executor::StreamExecutorStats + Send + Sync>, o: &Mutex<Obs>) {
    use reactive_mutiny::stream_executor::ExecutorStatus;
    let mut g = o.lock().unwrap();
    g.ok = e.ok_events_avg_future_duration().probe().0;
    g.failed = e.failed_events_avg_future_duration().probe().0;
    g.timed_out = e.timed_out_events_avg_future_duration().probe().0;
    g.callbacks += 1;
    let st = e.executor_status().load(SeqCst);
    g.status_ended = st == ExecutorStatus::StreamEnded || st == ExecutorStatus::ProgrammaticallyEnded;
    g.finish_ge_start = e.execution_finish_delta_nanos() >= e.execution_start_delta_nanos();
}

/// runs one Uni with the given executor kind over `items`; returns the observations
async fn run_uni<const INSTR: usize, const MS: usize>(variant: &str, timeout: bool, limit: u32, items: &[u32], close_after: usize, log_events: bool) -> Obs {
    let obs = Arc::new(Mutex::new(Obs::default()));
    // one (in progress, maximum in progress) gauge per consumer stream: the concurrency limit is per stream executor
    let gauges: Arc<Mutex<Vec<(Arc<AtomicI32>, Arc<AtomicI32>)>>> = Arc::new(Mutex::new(vec![]));
    let new_gauge = { let g = gauges.clone(); move || { let p = (Arc::new(AtomicI32::new(0)), Arc::new(AtomicI32::new(0))); g.lock().unwrap().push(p.clone()); p } };
    let totals = Arc::new(Mutex::new((0u32, 0u32, 0u32)));
    let on_err_count = Arc::new(AtomicU32::new(0));
    let to = if timeout { Duration::from_micros(TIMEOUT_US.load(SeqCst)) } else { Duration::ZERO };
    macro_rules! drive { ($uni:expr) => {{
        let uni = $uni;
        for (k, v) in items.iter().enumerate() {
            if k == close_after { break }
            assert!(uni.send(*v).is_ok(), "send rejected");
            if log_events { ev(format!("call 0 accepted {v}")); }
        }
        if log_events {
            // let some of the events get in flight before closing
            tokio::time::sleep(Duration::from_millis(1)).await;
            ev("call 0 closecalled".into());
        }
        let ok = uni.close(Duration::ZERO).await;
        if log_events { ev("call 0 closereturned".into()); }
        let _ = ok;     // (what an early return means is judged from the log: events processed when close() returned)
        // everything still running gets the time to finish (observations after this point only)
        tokio::time::sleep(Duration::from_millis(10 * TIMEOUT_MS)).await;
        // the counters of ALL the consumers of this Uni (the close callback only sees the executor that finished last)
        {
            use reactive_mutiny::stream_executor::StreamExecutorStats;
            let mut t = totals.lock().unwrap();
            for e in uni.stream_executors.iter().take(MS) {
                t.0 += e.ok_events_avg_future_duration().probe().0; t.1 += e.failed_events_avg_future_duration().probe().0; t.2 += e.timed_out_events_avg_future_duration().probe().0;
            }
        }
    }}}
    let (o2, e2) = (obs.clone(), on_err_count.clone());
    match variant {
        "futfallible" => {
            let ng = new_gauge.clone();
            drive!(UniMoveFullSync::<u32, 64, MS, INSTR>::new("x").spawn_executors(limit, to,
                move |stream| { let (i2, m2) = ng(); stream.map(move |v| { if log_events { ev(format!("call 0 yielded {v}")); } item_future(v, i2.clone(), m2.clone(), log_events) }) },
                // the error handler takes a moment (and is part of the processing of its item: the close callback comes after it)
                move |_err| { let e2 = e2.clone(); async move { if log_events { tokio::time::sleep(Duration::from_millis(2)).await; ev("call 0 handled".into()); } e2.fetch_add(1, SeqCst); } },
                move |e| { let o2 = o2.clone(); async move { if log_events { ev("call 0 callback".into()); } read_stats(&e, &o2); } }));
        }
        "fut" => {
            let ng = new_gauge.clone();
            drive!(UniMoveFullSync::<u32, 64, MS, INSTR>::new("x").spawn_futures_executors(limit, to,
                move |stream| { let (i2, m2) = ng(); stream.map(move |v| { if log_events { ev(format!("call 0 yielded {v}")); } let f = item_future(v, i2.clone(), m2.clone(), log_events); async move { f.await.unwrap_or(0) } }) },
                move |e| { let o2 = o2.clone(); async move { if log_events { ev("call 0 callback".into()); } read_stats(&e, &o2); } }));
        }
        "fallible" => {
            drive!(UniMoveFullSync::<u32, 64, MS, INSTR>::new("x").spawn_fallibles_executors(limit,
                move |stream| stream.map(move |v| { if log_events { ev(format!("call 0 yielded {v}")); } if code(v) == 1 { Err::<u32, DynErr>(format!("item {v} failed").into()) } else { Ok(v) } }),
                move |_err| { e2.fetch_add(1, SeqCst); },
                move |e| { let o2 = o2.clone(); async move { if log_events { ev("call 0 callback".into()); } read_stats(&e, &o2); } }));
        }
        _ => {
            drive!(UniMoveFullSync::<u32, 64, MS, INSTR>::new("x").spawn_non_futures_non_fallibles_executors(limit,
                move |stream| stream.map(move |v| { if log_events { ev(format!("call 0 yielded {v}")); } v }),
                move |e| { let o2 = o2.clone(); async move { if log_events { ev("call 0 callback".into()); } read_stats(&e, &o2); } }));
        }
    }
    let mut g = std::mem::take(&mut *obs.lock().unwrap());
    g.on_err = on_err_count.load(SeqCst);
    g.max_inflight = gauges.lock().unwrap().iter().map(|p| p.1.load(SeqCst)).max().unwrap_or(0);
    if MS > 1 { let t = totals.lock().unwrap(); g.ok = t.0; g.failed = t.1; g.timed_out = t.2; }
    g
}

/// C06 when the end signal was already given before the graceful close is asked for (oracle only): sequential executor
/// (`concurrency_limit = 1`), slow item futures, then one of
///   `expire`     : a bounded `close(5 ms)` that expires (answers false), followed by an unbounded `close()`
///   `cancel`     : `cancel_all_streams()` on the channel, followed by an unbounded `close()`
///   `concurrent` : two unbounded `close()` calls, the second issued while the first is waiting
/// The `accepted v` line is written by the producer's thread after `send` returned; on a multi-thread runtime a consumer may
/// already have logged `yielded v` by then.  The acceptance itself happened before the yield (the event was in the queue): move the
/// line to where it belongs.
fn fix_accept_order(trace: &mut Vec<String>) {
    let mut i = 0;
    while i < trace.len() {
        if let Some((_, v)) = trace[i].rsplit_once("yielded ") {
            let acc_suffix = format!("accepted {v}");
            if let Some(j) = trace.iter().position(|l| l.ends_with(&acc_suffix)) {
                if j > i { let l = trace.remove(j); trace.insert(i, l); i += 1; }
            }
        }
        i += 1;
    }
}

/// every unbounded `close()` may only return (true) after all accepted events were processed
async fn run_reclose(mode: &str, fallible: bool, n: u32) -> Vec<String> {
    let log = Arc::new(Mutex::new(Vec::<String>::new()));
    let (l1, l2) = (log.clone(), log.clone());
    let slow = move |v: u32, l: Arc<Mutex<Vec<String>>>| async move { tokio::time::sleep(Duration::from_millis(20)).await; l.lock().unwrap().push(format!("finished {v}")); v };
    let uni = if fallible {
        UniMoveFullSync::<u32, 64, 1, NONE>::new("x").spawn_executors(1, Duration::ZERO,
            move |stream| { let l = l1.clone(); stream.map(move |v| { l.lock().unwrap().push(format!("yielded {v}")); let f = slow(v, l.clone()); async move { Ok::<u32, DynErr>(f.await) } }) },
            |_err| async {},
            move |_e| { let l = l2.clone(); async move { l.lock().unwrap().push("callback".into()); } })
    } else {
        UniMoveFullSync::<u32, 64, 1, NONE>::new("x").spawn_futures_executors(1, Duration::ZERO,
            move |stream| { let l = l1.clone(); stream.map(move |v| { l.lock().unwrap().push(format!("yielded {v}")); slow(v, l.clone()) }) },
            move |_e| { let l = l2.clone(); async move { l.lock().unwrap().push("callback".into()); } })
    };
    for k in 0..n { assert!(uni.send(10 + k).is_ok()); log.lock().unwrap().push(format!("accepted {}", 10 + k)); }
    tokio::time::sleep(Duration::from_millis(1)).await;
    match mode {
        "expire" => {
            log.lock().unwrap().push("boundedclosecalled".into());
            let r = uni.close(Duration::from_millis(5)).await;
            log.lock().unwrap().push(format!("boundedclosereturned {r}"));
            log.lock().unwrap().push("closecalled".into());
            let r = uni.close(Duration::ZERO).await;
            log.lock().unwrap().push(format!("closereturned {r}"));
        }
        "cancel" => {
            log.lock().unwrap().push("cancelall".into());
            uni.channel.cancel_all_streams();
            tokio::time::sleep(Duration::from_millis(2)).await;
            log.lock().unwrap().push("closecalled".into());
            let r = uni.close(Duration::ZERO).await;
            log.lock().unwrap().push(format!("closereturned {r}"));
        }
        _ => {
            let (u2, l3) = (uni.clone(), log.clone());
            l3.lock().unwrap().push("closecalled".into());
            let first = tokio::spawn(async move { let r = u2.close(Duration::ZERO).await; l3.lock().unwrap().push(format!("closereturned {r}")); });
            tokio::time::sleep(Duration::from_millis(3)).await;
            log.lock().unwrap().push("closecalled".into());
            let r = uni.close(Duration::ZERO).await;
            log.lock().unwrap().push(format!("closereturned {r}"));
            let _ = first.await;
        }
    }
    tokio::time::sleep(Duration::from_millis(50 * (n as u64 + 1))).await;
    let r = log.lock().unwrap().clone();
    r
}

/// C12 (Uni latch), stress on the multi-thread runtime: a Uni with 4 consumer streams whose pipelines end by themselves at the
/// same instant (a spin barrier), so that all four executors reach the latch together; the user's close callback must run
/// exactly once.  Returns the number of callback invocations.
async fn run_latch(trial: u64) -> u32 {
    use std::task::Poll;
    const MS: usize = 4;
    let calls = Arc::new(AtomicU32::new(0));
    let arrivals = Arc::new(std::sync::atomic::AtomicUsize::new(0));
    let parked = Arc::new(Mutex::new(Vec::new()));
    let uni = {
        let (calls, arrivals, parked) = (calls.clone(), arrivals.clone(), parked.clone());
        UniMoveAtomic::<u32, 64, MS, NONE>::new(format!("latch {trial}")).spawn_non_futures_non_fallibles_executors(1,
            move |in_stream| {
                parked.lock().unwrap().push(in_stream);      // the Uni's own streams are kept aside: nothing is closed here
                let arrivals = arrivals.clone();
                let mut arrived = false;
                futures::stream::poll_fn(move |_cx| {
                    if !arrived { arrived = true; arrivals.fetch_add(1, SeqCst); }
                    let start = std::time::Instant::now();
                    while arrivals.load(SeqCst) < MS && start.elapsed() < Duration::from_secs(2) { std::hint::spin_loop(); }
                    Poll::Ready(None::<u32>)
                })
            },
            move |_e| async move { calls.fetch_add(1, SeqCst); })
    };
    let start = std::time::Instant::now();
    while (calls.load(SeqCst) == 0 || uni.finished_executors_count.load(SeqCst) < MS as u32) && start.elapsed() < Duration::from_millis(300) { tokio::time::sleep(Duration::from_millis(1)).await; }
    tokio::time::sleep(Duration::from_millis(1)).await;
    parked.lock().unwrap().clear();
    calls.load(SeqCst)
}

/// C12 (third sentence) + C06 for a Multi: the log channel's oldies executor hands over to the newies executor
async fn run_transition(seed: u64, sequential: bool, limit: u32, n_old: u32, n_new: u32, slow_old: bool, early_close: bool, remove_oldies: bool) -> Vec<String> {
    let name = format!("vh-transition-{}-{}", std::process::id(), seed);
    let multi = Arc::new(MultiMmapLog::<u32, 4, NONE>::new(name.clone()));
    for i in 0..n_old { let _ = multi.send(100 + i); }
    let log = Arc::new(Mutex::new(Vec::<String>::new()));
    let (l1, l2, l3, l4) = (log.clone(), log.clone(), log.clone(), log.clone());
    multi.spawn_futures_oldies_executor(limit, sequential, Duration::ZERO,
        "oldies", move |s| s.map(move |v: &u32| { let (l, v) = (l1.clone(), *v); async move { if slow_old { tokio::time::sleep(Duration::from_millis(20)).await; } l.lock().unwrap().push(format!("processed {v}")); } }),
        move |_| { let l = l2.clone(); async move { l.lock().unwrap().push("oldies_callback".into()); } },
        "newies", move |s| s.map(move |v: &u32| { let (l, v) = (l3.clone(), *v); async move { l.lock().unwrap().push(format!("processed {v}")); } }),
        move |_| { let l = l4.clone(); async move { l.lock().unwrap().push("newies_callback".into()); } }).await.expect("spawn");
    for i in 0..n_new { let _ = multi.send(200 + i); tokio::time::sleep(Duration::from_millis(1)).await; }
    if remove_oldies {
        // the oldies executor is removed INDIVIDUALLY (unbounded) while it is still replaying and new events are already pending: the removal
        // must come back (the oldies stream ends by itself after the replay, its close callback starts the newies executor, which drains
        // what is pending), both close callbacks run exactly once
        tokio::time::sleep(Duration::from_millis(25)).await;
        log.lock().unwrap().push("removecalled".into());
        match tokio::time::timeout(Duration::from_secs(5), multi.flush_and_cancel_executor("oldies".to_string(), Duration::ZERO)).await {
            Ok(b) => log.lock().unwrap().push(format!("removereturned {b}")),
            Err(_) => log.lock().unwrap().push("removestuck".into()),
        }
    }
    if early_close {
        // a bounded close() that expires while the old events are still being replayed: every stream is told to end; both executors must
        // still run to their end (the close callback of each exactly once)
        tokio::time::sleep(Duration::from_millis(25)).await;
        let ok = multi.close(Duration::from_millis(5)).await;
        log.lock().unwrap().push(format!("earlyclose {ok}"));
    }
    tokio::time::sleep(Duration::from_millis(60 * (n_old as u64 + 1))).await;
    log.lock().unwrap().push("closecalled".into());
    let ok = multi.close(Duration::ZERO).await;
    log.lock().unwrap().push(format!("closereturned {ok}"));
    tokio::time::sleep(Duration::from_millis(100)).await;
    let _ = std::fs::remove_file(format!("/tmp/{name}.mmap"));
    let r = log.lock().unwrap().clone();
    r
}

/// C06 for a Multi: 2-3 listeners (sequential futures executors) of different speeds; every one of them must have processed
/// every accepted event when `close()` returns.  Returns one event log per listener (in the format of the `close` sub).
macro_rules! mclose_kind { ($fname:ident, $ty:ty) => {
    async fn $fname(n_listeners: usize, n_events: u32, delays: Vec<u64>, limit: u32, remove: Option<usize>) -> Vec<Vec<String>> {
        let multi = Arc::new(<$ty>::new("vh-mclose"));
        let log = Arc::new(Mutex::new(Vec::<(usize, String)>::new()));   // (listener or usize::MAX for everybody, line)
        for l in 0..n_listeners {
            let (lg, lg2, d) = (log.clone(), log.clone(), delays[l]);
            multi.spawn_futures_executor(limit, Duration::ZERO, format!("listener{l}"),
                move |s| s.map(move |v| { let (lg, v) = (lg.clone(), *v); lg.lock().unwrap().push((l, format!("call 0 yielded {v}")));
                                          async move { if d > 0 { tokio::time::sleep(Duration::from_millis(d)).await; } lg.lock().unwrap().push((l, format!("call 0 finished {v}"))); } }),
                move |_| { let lg = lg2.clone(); async move { lg.lock().unwrap().push((l, "call 0 callback".into())); } }).await.expect("spawn");
        }
        for i in 0..n_events { assert!(multi.send(10 + i).is_ok()); log.lock().unwrap().push((usize::MAX, format!("call 0 accepted {}", 10 + i))); tokio::time::sleep(Duration::from_millis(1)).await; }
        // sometimes one listener is being removed individually (another task is inside `flush_and_cancel_executor`, waiting for
        // that listener's stream to end) when the whole Multi is closed: close() must still wait for that listener too
        let remover = remove.map(|r| { let (m2, lg) = (multi.clone(), log.clone()); tokio::spawn(async move {
            lg.lock().unwrap().push((r, "call 0 cancelall".into()));
            m2.flush_and_cancel_executor(format!("listener{r}"), Duration::ZERO).await }) });
        if remover.is_some() { tokio::time::sleep(Duration::from_millis(2)).await; }
        log.lock().unwrap().push((usize::MAX, "call 0 closecalled".into()));
        let ok = multi.close(Duration::ZERO).await;
        log.lock().unwrap().push((usize::MAX, "call 0 closereturned".into()));
        if !ok { log.lock().unwrap().push((usize::MAX, "call 0 closeanswered false".into())); }
        if let Some(r) = remover { let _ = r.await; }
        tokio::time::sleep(Duration::from_millis(500)).await;
        let lg = log.lock().unwrap().clone();
        (0..n_listeners).map(|l| lg.iter().filter(|(w, _)| *w == l || *w == usize::MAX).map(|(_, s)| s.clone()).collect()).collect()
    }
} }
mclose_kind!(mclose_arc_atomic, MultiAtomicArc<u32, 64, 4, NONE>);
mclose_kind!(mclose_arc_fullsync, MultiFullSyncArc<u32, 64, 4, NONE>);
mclose_kind!(mclose_arc_crossbeam, MultiCrossbeamArc<u32, 64, 4, NONE>);
mclose_kind!(mclose_ogre_atomic, MultiAtomicOgreArc<u32, 64, 4, NONE>);
mclose_kind!(mclose_ogre_fullsync, MultiFullSyncOgreArc<u32, 64, 4, NONE>);

/// C12: Multi executors removed individually with `flush_and_cancel_executor` at different moments (right after being spawned,
/// after some events, concurrently with sends); each close callback must run exactly once, find an ended status
/// (ProgrammaticallyEnded only if the executor had been scheduled to finish) and finish >= start.
async fn run_mcancel(seed: u64) -> (Vec<String>, Vec<(String, String)>) {
    use reactive_mutiny::stream_executor::ExecutorStatus;
    let mut rng = Rng::new(seed ^ 0xCA);
    let multi = Arc::new(MultiAtomicArc::<u32, 64, 4, METRICS>::new("vh-mcancel"));
    let n = rng.range(1, 3) as usize;
    let log = Arc::new(Mutex::new(Vec::<String>::new()));
    let stats = Arc::new(Mutex::new(Vec::<(usize, bool, bool, bool)>::new()));   // (executor, ended, programmatically, finish>=start)
    let mut viol = vec![];
    for e in 0..n {
        let (lg, lg2, st) = (log.clone(), log.clone(), stats.clone());
        multi.spawn_non_futures_non_fallible_executor(1, format!("p{e}"),
            move |s| s.inspect(move |v| lg.lock().unwrap().push(format!("processed {e} {}", **v))),
            move |x| { let (lg, st) = (lg2.clone(), st.clone()); async move {
                let status = x.executor_status().load(SeqCst);
                st.lock().unwrap().push((e, status == ExecutorStatus::StreamEnded || status == ExecutorStatus::ProgrammaticallyEnded, status == ExecutorStatus::ProgrammaticallyEnded,
                                         x.execution_finish_delta_nanos() >= x.execution_start_delta_nanos()));
                lg.lock().unwrap().push(format!("callback {e}"));
            } }).await.expect("spawn");
        // sometimes give the executor task the chance to start before anything else happens
        if rng.chance(1, 2) { tokio::task::yield_now().await; tokio::time::sleep(Duration::from_millis(1)).await; }
    }
    let n_events = rng.range(0, 4) as u32;
    let cancel_first = rng.chance(1, 2);
    if !cancel_first { for i in 0..n_events { let _ = multi.send(10 + i); } tokio::time::sleep(Duration::from_millis(2)).await; }
    // remove a random subset individually, the rest by close()
    let mut removed = vec![];
    for e in 0..n { if rng.chance(2, 3) {
        log.lock().unwrap().push(format!("cancel {e}"));
        let ok = multi.flush_and_cancel_executor(format!("p{e}"), Duration::ZERO).await;
        if !ok { viol.push(("cancel_refused".into(), format!("flush_and_cancel_executor answered false for the spawned executor p{e}"))); }
        removed.push(e);
    } }
    if cancel_first { for i in 0..n_events { let _ = multi.send(10 + i); } }
    tokio::time::sleep(Duration::from_millis(5)).await;
    log.lock().unwrap().push("closecalled".into());
    let ok = multi.close(Duration::ZERO).await;
    log.lock().unwrap().push(format!("closereturned {ok}"));
    tokio::time::sleep(Duration::from_millis(20)).await;
    let trace = log.lock().unwrap().clone();
    let st = stats.lock().unwrap().clone();
    for e in 0..n {
        let cbs = trace.iter().filter(|l| **l == format!("callback {e}")).count();
        if cbs != 1 { viol.push(("close_callback_count".into(), format!("the close callback of Multi executor p{e} ran {cbs} times (removed individually: {}; {} executors, {n_events} events)", removed.contains(&e), n))); }
        if let Some(x) = st.iter().find(|x| x.0 == e) {
            if !x.1 { viol.push(("status_not_ended".into(), format!("the close callback of executor p{e} found a non-ended status"))); }
            if x.2 && !removed.contains(&e) { viol.push(("programmatically_ended_unscheduled".into(), format!("executor p{e} reports ProgrammaticallyEnded although it was never scheduled to finish"))); }
            if !x.3 { viol.push(("finish_before_start".into(), format!("executor p{e} (removed individually: {}): finish time is before the start time", removed.contains(&e)))); }
        }
        if let Some(cb) = trace.iter().position(|l| *l == format!("callback {e}")) {
            if trace.iter().skip(cb).any(|l| l.starts_with(&format!("processed {e} "))) { viol.push(("callback_before_last_item".into(), format!("executor p{e} processed an item after its close callback"))); }
        }
    }
    (trace, viol)
}

/// C07: ONE stream is told to end through the channel's `gracefully_end_stream()` (bounded) while all the other stream ids are taken; its consumer
/// sees end-of-stream, drops the stream and re-subscribes (at once, or a little later): the replacement gets the very id that was just
/// released.  The replacement was never told to end: it must stay alive and receive what is sent afterwards; so must the other listener; the
/// ended stream must have yielded what was buffered for it.
async fn run_endreuse(seed: u64) -> (Vec<String>, Vec<(String, String)>) {
    use reactive_mutiny::types::{ChannelCommon, ChannelMulti, ChannelUni, ChannelProducer};
    use reactive_mutiny::multi::channels::arc::atomic::Atomic as MultiArcAtomic;
    use reactive_mutiny::uni::channels::movable::atomic::Atomic as UniMovableAtomic;
    let mut rng = Rng::new(seed ^ 0xE7D);
    let uni = rng.chance(1, 2);
    let n_buffered = rng.range(0, 2) as u32;
    let resub_delay = [0u64, 0, 1, 7][rng.below(4) as usize];
    let end_timeout = Duration::from_millis([20u64, 60][rng.below(2) as usize]);
    let patience = Duration::from_millis(3000);
    let log = Arc::new(Mutex::new(Vec::<String>::new()));
    let mut viol = vec![];
    macro_rules! lg { ($($a:tt)*) => { log.lock().unwrap().push(format!($($a)*)) } }
    lg!("cfg kind={} buffered={n_buffered} resub_delay={resub_delay}ms end_timeout={}ms", if uni { "uni_matomic" } else { "multi_arc_atomic" }, end_timeout.as_millis());
    let (tx, rx) = tokio::sync::oneshot::channel::<u32>();
    if uni {
        let channel = UniMovableAtomic::<'static, u32, 16, 1>::new("vh-endreuse");
        let (mut stream, stream_id) = channel.create_stream();
        for i in 0..n_buffered { let _ = channel.send(100 + i); }
        let (c2, l2) = (Arc::clone(&channel), log.clone());
        let consumer = tokio::spawn(async move {
            let mut old = vec![];
            while let Some(e) = stream.next().await { old.push(e); }
            drop(stream);
            if resub_delay > 0 { tokio::time::sleep(Duration::from_millis(resub_delay)).await; }
            let (mut repl, repl_id) = c2.create_stream();
            l2.lock().unwrap().push(format!("resubscribed id={repl_id}"));
            let _ = tx.send(repl_id);
            let mut got = vec![]; let mut ended = false;
            for _ in 0..2 { match tokio::time::timeout(patience, repl.next()).await { Ok(Some(e)) => got.push(e), Ok(None) => { ended = true; break }, Err(_) => break } }
            (old, got, ended)
        });
        tokio::time::sleep(Duration::from_millis(5)).await;
        let c3 = Arc::clone(&channel);
        let ender = tokio::spawn(async move { c3.gracefully_end_stream(stream_id, end_timeout).await });
        let repl_id = tokio::time::timeout(patience, rx).await.ok().and_then(|r| r.ok());
        let _ = tokio::time::timeout(patience, ender).await;
        lg!("end_stream over; replacement id {:?}", repl_id);
        tokio::time::sleep(Duration::from_millis(5)).await;
        let _ = channel.send(1); tokio::time::sleep(Duration::from_millis(3)).await; let _ = channel.send(2);
        let (old, got, ended) = consumer.await.expect("consumer task");
        lg!("ended stream yielded {:?}; replacement yielded {:?} ended={ended}", old, got);
        if old != (0..n_buffered).map(|i| 100 + i).collect::<Vec<_>>() { viol.push(("buffered_event_dropped_at_end".into(), format!("the stream told to end yielded {:?} of the {n_buffered} events buffered for it", old))); }
        if repl_id.is_none() { viol.push(("cancelled_stream_never_ended".into(), "the stream told to end by gracefully_end_stream() did not end".into())); }
        else if ended || got != vec![1, 2] { viol.push(("uncancelled_stream_ended".into(), format!("the replacement stream (id {:?}, same id as the stream that was ended: {}) was never told to end, yet it yielded {:?} of [1, 2]{}", repl_id, repl_id == Some(stream_id), got, if ended { " and then answered end-of-stream" } else { "" }))); }
    } else {
        let channel = MultiArcAtomic::<'static, u32, 16, 2>::new("vh-endreuse");
        let (mut first, _first_id) = channel.create_stream_for_new_events();
        let (mut second, second_id) = channel.create_stream_for_new_events();
        for i in 0..n_buffered { let _ = channel.send(100 + i); }
        let (c2, l2) = (Arc::clone(&channel), log.clone());
        let consumer = tokio::spawn(async move {
            let mut old = vec![];
            while let Some(e) = second.next().await { old.push(*e); }
            drop(second);
            if resub_delay > 0 { tokio::time::sleep(Duration::from_millis(resub_delay)).await; }
            let (mut repl, repl_id) = c2.create_stream_for_new_events();
            l2.lock().unwrap().push(format!("resubscribed id={repl_id}"));
            let _ = tx.send(repl_id);
            let mut got = vec![]; let mut ended = false;
            for _ in 0..2 { match tokio::time::timeout(patience, repl.next()).await { Ok(Some(e)) => got.push(*e), Ok(None) => { ended = true; break }, Err(_) => break } }
            (old, got, ended)
        });
        tokio::time::sleep(Duration::from_millis(5)).await;
        let c3 = Arc::clone(&channel);
        let ender = tokio::spawn(async move { c3.gracefully_end_stream(second_id, end_timeout).await });
        let repl_id = tokio::time::timeout(patience, rx).await.ok().and_then(|r| r.ok());
        let _ = tokio::time::timeout(patience, ender).await;
        lg!("end_stream over; replacement id {:?}", repl_id);
        tokio::time::sleep(Duration::from_millis(5)).await;
        let _ = channel.send(1); tokio::time::sleep(Duration::from_millis(3)).await; let _ = channel.send(2);
        let (old, got, ended) = consumer.await.expect("consumer task");
        let mut f = vec![];
        for _ in 0..(n_buffered + 2) { match tokio::time::timeout(patience, first.next()).await { Ok(Some(e)) => f.push(*e), _ => break } }
        lg!("ended listener yielded {:?}; replacement yielded {:?} ended={ended}; first listener yielded {:?}", old, got, f);
        let mut want: Vec<u32> = (0..n_buffered).map(|i| 100 + i).collect();
        if old != want { viol.push(("buffered_event_dropped_at_end".into(), format!("the listener told to end yielded {:?} of the {n_buffered} events buffered for it", old))); }
        want.extend([1, 2]);
        if f != want { viol.push(("untargeted_stream_starved".into(), format!("the first listener (never told to end) yielded {:?} instead of {:?}", f, want))); }
        if repl_id.is_none() { viol.push(("cancelled_stream_never_ended".into(), "the listener told to end by gracefully_end_stream() did not end".into())); }
        else if ended || got != vec![1, 2] { viol.push(("uncancelled_stream_ended".into(), format!("the replacement listener (id {:?}, same id as the listener that was ended: {}) was never told to end, yet it yielded {:?} of [1, 2]{}", repl_id, repl_id == Some(second_id), got, if ended { " and then answered end-of-stream" } else { "" }))); }
    }
    let trace = log.lock().unwrap().clone();
    (trace, viol)
}

/// C06 (`sub=mremove`, real clock): a Multi with 2-3 sequential listeners; listener 0 (3 ms per item) is removed INDIVIDUALLY with a BOUNDED
/// `flush_and_cancel_executor` that expires while it still has a backlog; it then works its backlog off, ends and drops its stream; a later
/// unbounded `close()` -- issued while the slowest listener (10 ms per item) is still busy -- must wait for every listener.
macro_rules! mremove_kind { ($fname:ident, $ty:ty) => {
    async fn $fname(n_listeners: usize, n_events: u32) -> Vec<Vec<String>> {
        let multi = Arc::new(<$ty>::new("vh-mremove"));
        let log = Arc::new(Mutex::new(Vec::<(usize, String)>::new()));
        let delays = [3u64, 10, 0];
        for l in 0..n_listeners {
            let (lg, lg2, d) = (log.clone(), log.clone(), delays[l]);
            multi.spawn_futures_executor(1, Duration::ZERO, format!("listener{l}"),
                move |s| s.map(move |v| { let (lg, v) = (lg.clone(), *v); lg.lock().unwrap().push((l, format!("call 0 yielded {v}")));
                                          async move { if d > 0 { tokio::time::sleep(Duration::from_millis(d)).await; } lg.lock().unwrap().push((l, format!("call 0 finished {v}"))); } }),
                move |_| { let lg = lg2.clone(); async move { lg.lock().unwrap().push((l, "call 0 callback".into())); } }).await.expect("spawn");
        }
        for i in 0..n_events { assert!(multi.send(10 + i).is_ok()); log.lock().unwrap().push((usize::MAX, format!("call 0 accepted {}", 10 + i))); }
        tokio::time::sleep(Duration::from_millis(2)).await;
        log.lock().unwrap().push((0, "call 0 cancelall".into()));
        let _ = multi.flush_and_cancel_executor("listener0".to_string(), Duration::from_millis(3)).await;
        let done0 = log.lock().unwrap().iter().filter(|(w, x)| *w == 0 && x.starts_with("call 0 finished")).count();
        log.lock().unwrap().push((usize::MAX, format!("# bounded removal of listener 0 expired: {}", (done0 as u32) < n_events)));
        // listener 0 works its backlog off, ends and drops its stream; listener 1 (10 ms per item) is still busy afterwards
        tokio::time::sleep(Duration::from_millis(3 * n_events as u64 + 25)).await;
        log.lock().unwrap().push((usize::MAX, "call 0 closecalled".into()));
        let ok = multi.close(Duration::ZERO).await;
        log.lock().unwrap().push((usize::MAX, "call 0 closereturned".into()));
        if !ok { log.lock().unwrap().push((usize::MAX, "call 0 closeanswered false".into())); }
        tokio::time::sleep(Duration::from_millis(10 * n_events as u64 + 50)).await;
        let lg = log.lock().unwrap().clone();
        (0..n_listeners).map(|l| lg.iter().filter(|(w, _)| *w == l || *w == usize::MAX).map(|(_, s)| s.clone()).collect()).collect()
    }
} }
mremove_kind!(mremove_arc_atomic, MultiAtomicArc<u32, 64, 4, NONE>);
mremove_kind!(mremove_ogre_atomic, MultiAtomicOgreArc<u32, 64, 4, NONE>);

fn runtime(multi: bool) -> tokio::runtime::Runtime {
    if multi { tokio::runtime::Builder::new_multi_thread().worker_threads(4).enable_all().build().unwrap() }
    else { tokio::runtime::Builder::new_current_thread().enable_all().start_paused(true).build().unwrap() }
}

fn main() {
    let a = Args::parse();
    let sub = a.get("sub", "account");
    let seed0 = a.num("seed", 1);
    let runs = a.num("runs", 50);
    let replay_dir = a.get("replay_dir", "");
    let pid = a.get("prop", "C");
    let multi = a.get("rt", "current") == "multi";
    let mut out = TraceOut::new(&a.get("trace", ""));
    let mut rep = Report::new(&format!("exec/{sub}"));
    const VARIANTS: [&str; 4] = ["futfallible", "fut", "fallible", "plain"];
    if sub == "endreuse" {
        for i in 0..runs {
            let seed = if a.kv.contains_key("seedx") { a.num("seedx", 0) } else { seed0.wrapping_mul(1_000_003).wrapping_add(i) };
            mark_run(seed);
            // real clock: `end_stream` measures its timeout with std's `Instant`, which a paused tokio clock does not move
            let rt = if multi { runtime(true) } else { tokio::runtime::Builder::new_current_thread().enable_all().build().unwrap() };
            let (trace, viol) = rt.block_on(run_endreuse(seed));
            drop(rt);
            rep.add_run(&trace, trace.iter().any(|l| l.starts_with("resubscribed")), &trace[0], "Completed");
            for (k, d) in viol {
                let header = vec![format!("cmd exec sub=endreuse runs=1 seedx={seed}"), format!("violation {k}: {d}")];
                let p = write_replay(&replay_dir, &format!("{pid}-exec-endreuse-seed{seed}-{k}"), &header, &trace);
                rep.violations.push(Violation { run: i, seed, kind: k, detail: d, replay: p });
            }
        }
        rep.print();
        return
    }
    if sub == "mcancel" {
        for i in 0..runs {
            let seed = if a.kv.contains_key("seedx") { a.num("seedx", 0) } else { seed0.wrapping_mul(1_000_003).wrapping_add(i) };
            mark_run(seed);
            let rt = runtime(multi);
            let (trace, viol) = rt.block_on(run_mcancel(seed));
            drop(rt);
            rep.add_run(&trace, trace.iter().any(|l| l.starts_with("cancel")), "mcancel", "Completed");
            for (k, d) in viol {
                let header = vec![format!("cmd exec sub=mcancel runs=1 seedx={seed}"), format!("violation {k}: {d}")];
                let p = write_replay(&replay_dir, &format!("{pid}-exec-mcancel-seed{seed}-{k}"), &header, &trace);
                rep.violations.push(Violation { run: i, seed, kind: k, detail: d, replay: p });
            }
        }
        rep.print();
        return
    }
    if sub == "mremove" {
        for i in 0..runs {
            let seed = if a.kv.contains_key("seedx") { a.num("seedx", 0) } else { seed0.wrapping_mul(1_000_003).wrapping_add(i) };
            mark_run(seed);
            let mut rng = Rng::new(seed ^ 0x3E);
            let ogre = rng.chance(1, 2);
            let nl = rng.range(2, 3) as usize;
            let ne = rng.range(5, 10) as u32;
            // real clock: `end_stream` / `flush` measure their timeouts with std's `Instant`
            let rt = if multi { runtime(true) } else { tokio::runtime::Builder::new_current_thread().enable_all().build().unwrap() };
            let kind = if ogre { "ogre_atomic" } else { "arc_atomic" };
            let logs = rt.block_on(async { tokio::time::timeout(Duration::from_secs(8), async { if ogre { mremove_ogre_atomic(nl, ne).await } else { mremove_arc_atomic(nl, ne).await } }).await });
            // (a runtime whose tasks wait for ever cannot be dropped normally)
            rt.shutdown_background();
            let logs = match logs { Ok(l) => l, Err(_) => {
                let d = format!("Multi {kind}, {nl} sequential listeners, listener #0 removed earlier by a bounded flush_and_cancel_executor: the scenario ({ne} events of at most 10 ms each, then close()) did not finish within 8 s -- close() with an unbounded timeout never returned");
                let header = vec![format!("cmd exec sub=mremove runs=1 seedx={seed}"), format!("violation close_never_returned: {d}")];
                let p = write_replay(&replay_dir, &format!("{pid}-exec-mremove-seed{seed}-close_never_returned"), &header, &[]);
                rep.violations.push(Violation { run: i, seed, kind: "close_never_returned".into(), detail: d, replay: p });
                rep.add_run(&[format!("mremove seed {seed} stuck")], true, &format!("mremove/{kind}/l{nl}"), "Stuck");
                if rep.violations.len() > 3 { break }
                continue } };
            for (l, trace) in logs.iter().enumerate() {
                let mut viol: Vec<(String, String)> = vec![];
                let closed_at = trace.iter().position(|x| x == "call 0 closereturned").unwrap_or(trace.len());
                for v in (0..ne).map(|k| 10 + k) {
                    match trace.iter().position(|x| *x == format!("call 0 finished {v}")) {
                        Some(p) if p < closed_at => {}
                        _ => viol.push(("close_before_processed".into(), format!("Multi {kind}, {nl} sequential listeners (3 / 10 / 0 ms per item), listener #0 removed earlier by a bounded flush_and_cancel_executor ({}): close() returned before listener #{l} had processed accepted event {v} (it had processed {} of {ne})", trace.iter().find(|x| x.starts_with("# bounded")).cloned().unwrap_or_default(), trace[..closed_at].iter().filter(|x| x.starts_with("call 0 finished")).count()))),
                    }
                }
                let cbs = trace.iter().filter(|x| *x == "call 0 callback").count();
                if cbs != 1 { viol.push(("close_callback_count".into(), format!("Multi {kind}: the close callback of listener #{l} ran {cbs} times"))); }
                if trace.iter().any(|x| x == "call 0 closeanswered false") { viol.push(("close_failed".into(), "Multi::close() with an unbounded timeout answered false".into())); }
                rep.add_run(trace, trace.iter().any(|x| x.ends_with("expired: true")), &format!("mremove/{kind}/l{nl}"), "Completed");
                out.write_run(&format!("cfg model=exec futures=1 limit=1 seed={seed} run={i} listener={l}"), trace);
                viol.truncate(2);
                for (k, d) in viol {
                    let header = vec![format!("cmd exec sub=mremove runs=1 seedx={seed}"), format!("violation {k}: {d}")];
                    let p = write_replay(&replay_dir, &format!("{pid}-exec-mremove-seed{seed}-l{l}-{k}"), &header, trace);
                    rep.violations.push(Violation { run: i, seed, kind: k, detail: d, replay: p });
                }
            }
        }
        out.finish();
        rep.print();
        return
    }
    if sub == "mclose" {
        const KINDS: [&str; 5] = ["arc_atomic", "arc_fullsync", "arc_crossbeam", "ogre_atomic", "ogre_fullsync"];
        for i in 0..runs {
            let seed = if a.kv.contains_key("seedx") { a.num("seedx", 0) } else { seed0.wrapping_mul(1_000_003).wrapping_add(i) };
            mark_run(seed);
            let mut rng = Rng::new(seed ^ 0x3C);
            let kind = KINDS[rng.below(5) as usize];
            let nl = rng.range(2, 3) as usize;
            let ne = rng.range(1, 12) as u32;
            let delays: Vec<u64> = (0..nl).map(|_| [0, 0, 3, 10][rng.below(4) as usize]).collect();
            let remove = if rng.chance(1, 2) { (0..nl).rev().find(|l| delays[*l] > 0) } else { None };
            let rt = runtime(multi);
            let logs = rt.block_on(async { match kind {
                "arc_atomic" => mclose_arc_atomic(nl, ne, delays.clone(), 1, remove).await, "arc_fullsync" => mclose_arc_fullsync(nl, ne, delays.clone(), 1, remove).await,
                "arc_crossbeam" => mclose_arc_crossbeam(nl, ne, delays.clone(), 1, remove).await, "ogre_atomic" => mclose_ogre_atomic(nl, ne, delays.clone(), 1, remove).await,
                _ => mclose_ogre_fullsync(nl, ne, delays.clone(), 1, remove).await } });
            drop(rt);
            let mut logs = logs;
            for t in logs.iter_mut() { fix_accept_order(t); }
            for (l, trace) in logs.iter().enumerate() {
                let mut viol: Vec<(String, String)> = vec![];
                let closed_at = trace.iter().position(|x| x == "call 0 closereturned").unwrap_or(trace.len());
                for v in (0..ne).map(|k| 10 + k) {
                    match trace.iter().position(|x| *x == format!("call 0 finished {v}")) {
                        Some(p) if p < closed_at => {}
                        _ => viol.push(("close_before_processed".into(), format!("Multi {kind}, {nl} listeners with per-item delays {delays:?} ms, sequential executors{}: close() returned before listener #{l} had processed accepted event {v} (it processed {} of {ne})", remove.map(|r| format!(", listener #{r} being removed by flush_and_cancel_executor meanwhile")).unwrap_or_default(), trace[..closed_at].iter().filter(|x| x.starts_with("call 0 finished")).count()))),
                    }
                }
                let cbs = trace.iter().filter(|x| *x == "call 0 callback").count();
                if cbs != 1 { viol.push(("close_callback_count".into(), format!("Multi {kind}: the close callback of listener #{l} ran {cbs} times"))); }
                rep.add_run(trace, ne > 1 && delays.iter().any(|d| *d > 0), &format!("mclose/{kind}/l{nl}"), "Completed");
                out.write_run(&format!("cfg model=exec futures=1 limit=1 seed={seed} run={i} listener={l}"), trace);
                viol.truncate(2);
                for (k, d) in viol {
                    let header = vec![format!("cmd exec sub=mclose runs=1 seedx={seed}"), format!("violation {k}: {d}")];
                    let p = write_replay(&replay_dir, &format!("{pid}-exec-mclose-seed{seed}-l{l}-{k}"), &header, trace);
                    rep.violations.push(Violation { run: i, seed, kind: k, detail: d, replay: p });
                }
            }
        }
        out.finish();
        rep.print();
        return
    }
    if sub == "reclose" {
        for i in 0..runs {
            let seed = if a.kv.contains_key("seedx") { a.num("seedx", 0) } else { seed0.wrapping_mul(1_000_003).wrapping_add(i) };
            mark_run(seed);
            let mut rng = Rng::new(seed ^ 0x2E);
            let mode = ["expire", "cancel", "concurrent"][rng.below(3) as usize];
            let fallible = rng.chance(1, 2);
            let n = rng.range(1, 6) as u32;
            let rt = runtime(multi);
            let mut trace = rt.block_on(run_reclose(mode, fallible, n));
            fix_accept_order(&mut trace);
            drop(rt);
            let mut viol: Vec<(String, String)> = vec![];
            for (p, l) in trace.iter().enumerate() {
                if l == "closereturned true" {
                    let done = trace[..p].iter().filter(|x| x.starts_with("finished ")).count();
                    if done < n as usize { viol.push(("close_before_processed".into(), format!("mode `{mode}` (sequential futures executor, {n} slow events): an unbounded close() returned true (log line {p}) after only {done} of the {n} accepted events had been processed"))); }
                }
                if l == "closereturned false" { viol.push(("close_failed".into(), format!("mode `{mode}`: close() with an unbounded timeout answered false"))); }
            }
            let cbs = trace.iter().filter(|x| *x == "callback").count();
            if cbs != 1 { viol.push(("close_callback_count".into(), format!("mode `{mode}`: the close callback ran {cbs} times"))); }
            viol.dedup_by(|a, b| a.0 == b.0);
            rep.add_run(&trace, n > 1, &format!("reclose/{mode}/f{}", fallible as u8), "Completed");
            out.write_run(&format!("cfg model=exec futures=1 limit=1 seed={seed} run={i} mode={mode}"), &trace.iter().map(|l| format!("call 0 {l}")).collect::<Vec<_>>());
            for (k, d) in viol {
                let header = vec![format!("cmd exec sub=reclose runs=1 seedx={seed} rt={}", if multi { "multi" } else { "current" }), format!("violation {k}: {d}")];
                let p = write_replay(&replay_dir, &format!("{pid}-exec-reclose-seed{seed}-{k}"), &header, &trace);
                rep.violations.push(Violation { run: i, seed, kind: k, detail: d, replay: p });
            }
        }
        rep.print();
        return
    }
    if sub == "latch" {
        let rt = tokio::runtime::Builder::new_multi_thread().worker_threads(8).enable_all().build().unwrap();
        for i in 0..runs {
            let seed = if a.kv.contains_key("seedx") { a.num("seedx", 0) } else { seed0.wrapping_mul(1_000_003).wrapping_add(i) };
            mark_run(seed);
            let calls = rt.block_on(run_latch(seed));
            let trace = vec![format!("latch trial {seed}: 4 executors finished together, user close callback ran {calls} time(s)")];
            rep.add_run(&[format!("latch calls={calls}")], true, "latch/ms4", "Completed");
            if calls != 1 && rep.violations.len() < 3 {
                let d = format!("Uni with 4 consumer streams whose executors finish at the same instant (multi-thread runtime): the Uni's close callback ran {calls} times instead of exactly once");
                let header = vec![format!("cmd exec sub=latch runs=200 seedx={seed}   # stress test: repeat the trial"), format!("violation close_callback_count: {d}")];
                let p = write_replay(&replay_dir, &format!("{pid}-exec-latch-seed{seed}-close_callback_count"), &header, &trace);
                rep.violations.push(Violation { run: i, seed, kind: "close_callback_count".into(), detail: d, replay: p });
            }
        }
        drop(rt);
        out.finish();
        rep.print();
        return
    }
    if sub == "transition" {
        for i in 0..runs {
            let seed = if a.kv.contains_key("seedx") { a.num("seedx", 0) } else { seed0.wrapping_mul(1_000_003).wrapping_add(i) };
            mark_run(seed);
            let mut rng = Rng::new(seed ^ 0x7A);
            let (sequential, limit, n_old, n_new, slow) = (rng.chance(2, 3), rng.range(1, 3) as u32, rng.range(0, 4) as u32, rng.range(0, 4) as u32, rng.chance(1, 2));
            let early0 = sequential && slow && n_old >= 2 && rng.chance(1, 2);
            // (drawn from a generator of its own so that the other choices of a seed stay what they were)
            let remove_oldies = sequential && slow && n_old >= 2 && n_new >= 1 && Rng::new(seed ^ 0x01D).chance(3, 4);
            let early = early0 && !remove_oldies;
            let rt = runtime(multi);
            let trace = rt.block_on(run_transition(seed, sequential, limit, n_old, n_new, slow, early, remove_oldies));
            drop(rt);
            let mut viol: Vec<(String, String)> = vec![];
            let pos = |x: &str| trace.iter().position(|l| l == x);
            // every event processed exactly once by the pair of executors, oldies in log order
            for v in (0..n_old).map(|k| 100 + k).chain((0..n_new).map(|k| 200 + k)) {
                let c = trace.iter().filter(|l| **l == format!("processed {v}")).count();
                if c != 1 { viol.push(("transition_lost_or_duplicated".into(), format!("event {v} was processed {c} times by the oldies/newies executors (sequential={sequential}, limit={limit}, {n_old} old, {n_new} new)"))); }
            }
            if sequential {
                let last_old = (0..n_old).filter_map(|k| pos(&format!("processed {}", 100 + k))).max();
                let first_new = (0..n_new).filter_map(|k| pos(&format!("processed {}", 200 + k))).min();
                if let (Some(lo), Some(fnw)) = (last_old, first_new) { if fnw < lo { viol.push(("new_before_old".into(), format!("with sequential_transition a new event was processed (log line {fnw}) before the last old one (line {lo}); limit={limit}"))); } }
            }
            for cb in ["oldies_callback", "newies_callback"] { let c = trace.iter().filter(|l| *l == cb).count(); if c != 1 { viol.push(("close_callback_count".into(), format!("{cb} ran {c} times"))); } }
            if let (Some(cb), Some(cr)) = (pos("newies_callback"), trace.iter().position(|l| l.starts_with("closereturned"))) { let _ = (cb, cr); }
            if !trace.iter().any(|l| l == "closereturned true") { viol.push(("close_failed".into(), "Multi::close() with an unbounded timeout answered false".into())); }
            if trace.iter().any(|l| l == "removestuck") { viol.push(("executor_removal_never_returned".into(), format!("flush_and_cancel_executor(\"oldies\") with an unbounded timeout did not come back within 5 s (of the paused clock) although the old events were replayed: {n_old} old (slow), {n_new} new events pending, sequential transition, limit={limit}; oldies_callback ran {} times", trace.iter().filter(|l| *l == "oldies_callback").count()))); }
            rep.add_run(&trace, n_old > 0 && n_new > 0, &format!("transition/seq{}/l{limit}{}", sequential as u8, if remove_oldies { "/remove-oldies" } else { "" }), "Completed");
            for (k, d) in viol {
                let header = vec![format!("cmd exec sub=transition runs=1 seedx={seed}"), format!("violation {k}: {d}")];
                let p = write_replay(&replay_dir, &format!("{pid}-exec-transition-seed{seed}-{k}"), &header, &trace);
                rep.violations.push(Violation { run: i, seed, kind: k, detail: d, replay: p });
            }
        }
        rep.print();
        return
    }
    for i in 0..runs {
        let seed = if a.kv.contains_key("seedx") { a.num("seedx", 0) } else { seed0.wrapping_mul(1_000_003).wrapping_add(i) };
        mark_run(seed);
        let mut rng = Rng::new(seed ^ 0xE4EC);
        let variant = VARIANTS[rng.below(4) as usize];
        let timeout = matches!(variant, "futfallible" | "fut") && rng.chance(1, 2);
        // (drawn from a generator of its own so that the other choices of a seed stay what they were)
        // (only on the paused clock: on the real clock of `rt=multi` a 700 us deadline races with the scheduling latency of a fast item)
        TIMEOUT_US.store(if sub == "account" && !multi && Rng::new(seed ^ 0x5B).chance(1, 3) { 700 } else { TIMEOUT_MS * 1000 }, SeqCst);
        let limit = rng.range(1, if sub == "close" { 4 } else { 8 }) as u32;
        // 0: metrics, 1: logs + metrics, 2: none, 3: expensive metrics, 4: logs + expensive metrics (every setting but 2 counts the items)
        let instr = rng.below(5);
        let n = rng.range(0, if sub == "close" { 6 } else { 12 }) as usize;
        let items: Vec<u32> = (0..n).map(|k| {
            let c = match variant { "futfallible" => rng.below(5), "fut" => [0, 2][rng.below(2) as usize], "fallible" => rng.below(2), _ => 0 } as u32;
            (k as u32 + 1) * 10 + c
        }).collect();
        LOG.lock().unwrap().clear();
        let rt = runtime(multi);
        let log_events = sub == "close";
        // `account`: Unis with 1, 2 or 4 consumer streams (each stream has its own executor, the limit applies to each)
        // (on the multi-thread runtime only MAX_STREAMS = 1: with several consumer streams ending on different worker threads
        //  `close()` runs into known finding D11 -- cancel_all_streams() racing the removal of the streams it has just ended --,
        //  which is exhibited deterministically by `multi sub=cancelall`, not by real-time races here)
        let ms = if sub == "account" && !multi { [1usize, 1, 2, 4][rng.below(4) as usize] } else { let _ = rng.below(4); 1 };
        let o = rt.block_on(async {
            match (instr, ms) {
                (0, 1) => run_uni::<METRICS, 1>(variant, timeout, limit, &items, usize::MAX, log_events).await,
                (0, 2) => run_uni::<METRICS, 2>(variant, timeout, limit, &items, usize::MAX, log_events).await,
                (0, _) => run_uni::<METRICS, 4>(variant, timeout, limit, &items, usize::MAX, log_events).await,
                (1, 1) => run_uni::<LOGMETRICS, 1>(variant, timeout, limit, &items, usize::MAX, log_events).await,
                (1, 2) => run_uni::<LOGMETRICS, 2>(variant, timeout, limit, &items, usize::MAX, log_events).await,
                (1, _) => run_uni::<LOGMETRICS, 4>(variant, timeout, limit, &items, usize::MAX, log_events).await,
                (3, 1) => run_uni::<EXPMETRICS, 1>(variant, timeout, limit, &items, usize::MAX, log_events).await,
                (3, 2) => run_uni::<EXPMETRICS, 2>(variant, timeout, limit, &items, usize::MAX, log_events).await,
                (3, _) => run_uni::<EXPMETRICS, 4>(variant, timeout, limit, &items, usize::MAX, log_events).await,
                (4, 1) => run_uni::<LOGEXPMETRICS, 1>(variant, timeout, limit, &items, usize::MAX, log_events).await,
                (4, 2) => run_uni::<LOGEXPMETRICS, 2>(variant, timeout, limit, &items, usize::MAX, log_events).await,
                (4, _) => run_uni::<LOGEXPMETRICS, 4>(variant, timeout, limit, &items, usize::MAX, log_events).await,
                (_, 1) => run_uni::<NONE, 1>(variant, timeout, limit, &items, usize::MAX, log_events).await,
                (_, 2) => run_uni::<NONE, 2>(variant, timeout, limit, &items, usize::MAX, log_events).await,
                (_, _) => run_uni::<NONE, 4>(variant, timeout, limit, &items, usize::MAX, log_events).await }
        });
        drop(rt);
        let letters: String = items.iter().map(|v| ['o', 'e', 's', 'x', 'z'][code(*v) as usize]).collect();
        let cfgkey = format!("{variant}/to{}{}/l{limit}/i{instr}/ms{ms}", timeout as u8, if timeout && TIMEOUT_US.load(SeqCst) < 1000 { "sub-ms" } else { "" });
        let mut viol: Vec<(String, String)> = vec![];
        let mut trace: Vec<String> = vec![];
        let metrics = instr != 2;
        if sub == "account" {
            trace.push(format!("call 0 account {variant} {} {}", timeout as u8, if letters.is_empty() { "-".into() } else { letters.clone() }));
            if metrics { trace.push(format!("obs counts {} {} {} {}", o.ok, o.failed, o.timed_out, o.on_err)); } else { trace.push(format!("obs onerr {}", o.on_err)); }
            // implementation-side oracle (independent of the model): one outcome per item
            if metrics && (o.ok + o.failed + o.timed_out) as usize != items.len() { viol.push(("items_not_accounted".into(), format!("{variant} timeout={timeout} limit={limit}: {} items ({letters}) but ok {} + failed {} + timed out {}", items.len(), o.ok, o.failed, o.timed_out))); }
            // what each item's own outcome says (independently of the model): ok / failed / timed out
            let (mut x_ok, mut x_failed, mut x_to) = (0u32, 0u32, 0u32);
            for v in &items { match (code(*v), timeout) { (0, _) => x_ok += 1, (1, _) | (4, _) => x_failed += 1, (2, false) => x_ok += 1, (3, false) => x_failed += 1, _ => x_to += 1 } }
            if matches!(variant, "futfallible" | "fallible") && o.on_err != x_failed { viol.push(("error_callback_count".into(), format!("{variant} timeout={timeout}: {x_failed} items failed ({letters}) but the error callback ran {} times", o.on_err))); }
            if metrics && matches!(variant, "futfallible" | "fut" | "fallible") && (o.ok, o.failed, o.timed_out) != (x_ok, if variant == "fut" { 0 } else { x_failed }, x_to) && variant != "fut" {
                viol.push(("item_misclassified".into(), format!("{variant} timeout={timeout} limit={limit}: items {letters} should count ok {x_ok} / failed {x_failed} / timed out {x_to}, the executor counted {} / {} / {}", o.ok, o.failed, o.timed_out))); }
            let has_on_err = matches!(variant, "futfallible" | "fallible");
            if has_on_err && metrics && o.on_err != o.failed { viol.push(("error_callback_count".into(), format!("{variant}: error callback ran {} times for {} failed items ({letters})", o.on_err, o.failed))); }
            if matches!(variant, "futfallible" | "fut") && o.max_inflight > limit as i32 { viol.push(("limit_exceeded".into(), format!("{variant} (Uni with {ms} consumer streams): one consumer had {} item futures in progress at once with concurrency_limit={limit}", o.max_inflight))); }
            if o.callbacks != 1 { viol.push(("close_callback_count".into(), format!("{variant}: the close callback ran {} times", o.callbacks))); }
        } else {
            trace = LOG.lock().unwrap().clone();
            fix_accept_order(&mut trace);
            // oracle C06: when close() returned, every accepted event had been processed
            let closed_at = trace.iter().position(|l| l == "call 0 closereturned").unwrap_or(trace.len());
            let futures = matches!(variant, "futfallible" | "fut");
            for v in &items {
                let done_tag = if futures { format!("call 0 finished {v}") } else { format!("call 0 yielded {v}") };
                match trace.iter().position(|l| *l == done_tag) {
                    Some(p) if p < closed_at => {}
                    _ => viol.push(("close_before_processed".into(), format!("{variant} limit={limit} futures={futures}: close() returned (log line {closed_at}) before accepted event {v} had been fully processed"))),
                }
            }
            // oracle C12: exactly one callback, after the last item, ended status, finish >= start
            let cbs: Vec<usize> = trace.iter().enumerate().filter(|(_, l)| *l == "call 0 callback").map(|(k, _)| k).collect();
            if cbs.len() != 1 { viol.push(("close_callback_count".into(), format!("{variant}: the close callback ran {} times", cbs.len()))); }
            else {
                let last_fin = trace.iter().rposition(|l| l.starts_with("call 0 finished") || l.starts_with("call 0 yielded")).unwrap_or(0);
                if let Some(last_handled) = trace.iter().rposition(|l| l == "call 0 handled") { if cbs[0] < last_handled {
                    viol.push(("callback_before_last_item".into(), format!("{variant} limit={limit}: the close callback ran (log line {}) before the error handler of a failed item had completed (line {last_handled})", cbs[0]))); } }
                if !items.is_empty() && cbs[0] < last_fin { viol.push(("callback_before_last_item".into(), format!("{variant} limit={limit}: close callback at log line {} but an item was still being processed at line {last_fin}", cbs[0]))); }
            }
            if !o.status_ended { viol.push(("status_not_ended".into(), format!("{variant}: the close callback found the executor in a non-ended state"))); }
            if !o.finish_ge_start { viol.push(("finish_before_start".into(), "finish time before start time".into())); }
        }
        let cfg = if sub == "account" { "cfg model=exec".to_string() } else { format!("cfg model=exec futures={} limit={limit}", matches!(variant, "futfallible" | "fut") as u8) };
        let nontrivial = if sub == "account" { letters.contains('e') || letters.contains('s') || letters.contains('x') || letters.contains('z') } else { items.len() > 1 };
        rep.add_run(&trace, nontrivial, &cfgkey, "Completed");
        out.write_run(&format!("{cfg} seed={seed} run={i}"), &trace);
        for (k, d) in viol {
            let header = vec![format!("cmd exec sub={sub} runs=1 seedx={seed} rt={}", if multi { "multi" } else { "current" }), format!("violation {k}: {d}"), cfg.clone()];
            let p = write_replay(&replay_dir, &format!("{pid}-exec-{sub}-seed{seed}-{k}"), &header, &trace);
            rep.violations.push(Violation { run: i, seed, kind: k, detail: d, replay: p });
        }
    }
    out.finish();
    rep.print();
}
