//! Scenario `teardown`: channels are torn down with events still buffered / handles released in different orders; every
//! case runs in a child process (a crash of the real code is an observation, not the end of the check).   (C05)
//!
//!   teardown runs=<r> seed=<s> replay_dir=<d>          -- parent: enumerates the cases, spawns itself with `case=<k> seedx=<s>`
//!
//! Oracle (child): every payload destroyed at most once; payloads of the Arc / OgreArc channels destroyed exactly once by
//! the time the channel is gone; no crash; the pool accepts BUFFER_SIZE events again after everything was released.

use std::sync::{Arc, atomic::{AtomicU32, Ordering::SeqCst}};
use std::task::{Context, Poll, Wake, Waker};
use std::pin::Pin;
use futures::Stream;
use reactive_mutiny::prelude::advanced::*;
use vh::util::*;

const MAXV: usize = 256;
static DROPS: [AtomicU32; MAXV] = [const { AtomicU32::new(0) }; MAXV];

#[derive(Debug)]
pub struct Tracked { id: u32, text: String }
impl Default for Tracked { fn default() -> Self { Tracked { id: 255, text: String::new() } } }
impl Drop for Tracked { fn drop(&mut self) { if (self.id as usize) < MAXV - 1 { DROPS[self.id as usize].fetch_add(1, SeqCst); } } }
fn mk(id: u32) -> Tracked { Tracked { id, text: format!("payload number {id} with a heap allocated text of some length .........................") } }

struct NoWake;
impl Wake for NoWake { fn wake(self: Arc<Self>) {} }

fn poll<S: Stream + Unpin>(s: &mut S) -> Option<S::Item> {
    let w: Waker = Arc::new(NoWake).into();
    let mut cx = Context::from_waker(&w);
    match Pin::new(s).poll_next(&mut cx) { Poll::Ready(x) => x, Poll::Pending => None }
}

const KINDS: [&str; 10] = ["multi_ogre_arc_atomic", "multi_ogre_arc_fullsync", "multi_arc_atomic", "multi_arc_fullsync", "multi_arc_crossbeam",
                           "uni_zc_atomic", "uni_zc_fullsync", "uni_mov_atomic", "uni_mov_fullsync", "uni_mov_crossbeam"];

/// one history: `sent` events, `consumed` of them received (handles kept in `held`), then: streams dropped, channel
/// dropped, held handles dropped -- in the order given by `order`
fn child(kind: &str, seed: u64) -> Vec<String> {
    let mut rng = Rng::new(seed);
    let sent = rng.range(1, 4) as u32;
    let consumed = rng.below(sent as u64 + 1) as u32;
    let listeners = rng.range(1, 2) as usize;
    let release_before_teardown = rng.chance(1, 2);
    // zero-copy Uni channels: `cycles` events go through first (sent, received, released: their slots then carry the bytes of payloads that
    // were destroyed already), and a producer may abandon a claimed slot: a reservation that is never sent nor cancelled, or a setter that panics
    let cycles = rng.below(7) as u32;
    let abandon = ["none", "none", "reserve", "panic"][rng.below(4) as usize];
    // (an abandoned claim keeps its slot: one event fewer fits)
    let zc_kind = kind.starts_with("uni_zc");
    let sent = if zc_kind && abandon != "none" { sent.min(3) } else { sent };
    let consumed = consumed.min(sent);
    let mut out = vec![format!("history kind={kind} sent={sent} consumed={consumed} listeners={listeners} release_before_teardown={release_before_teardown} cycles={cycles} abandon={abandon}")];
    println!("{}", out[0]); { use std::io::Write; std::io::stdout().flush().ok(); }
    macro_rules! multi { ($ty:ty, $shared:expr) => {{
        let ch = <$ty>::new("t");
        let mut streams: Vec<_> = (0..listeners).map(|_| ch.create_stream_for_new_events().0).collect();
        for i in 0..sent { assert!(ch.send_with(move |slot| unsafe { std::ptr::write(slot, mk(i)) }).is_ok(), "send rejected"); }
        let mut held = vec![];
        for s in streams.iter_mut() { for _ in 0..consumed { if let Some(h) = poll(s) { held.push(h) } } }
        for h in &held { let _ = h.id; }
        if release_before_teardown { held.clear(); }
        drop(streams);
        drop(ch);
        // handles must not outlive their channel (assumption of the property): they were released above, or are leaked
        if !held.is_empty() { std::mem::forget(held); }
        for i in 0..sent {
            let d = DROPS[i as usize].load(SeqCst);
            // fully consumed-and-released, or still buffered at teardown: destroyed exactly once; held (leaked) ones: not at all
            let fully_released = release_before_teardown || consumed <= i;
            if d > 1 { out.push(format!("VIOLATION destroyed_twice payload {i} destroyed {d} times")); }
            if fully_released && d == 0 && $shared { out.push(format!("VIOLATION never_destroyed payload {i} was never destroyed although the channel and every handle are gone")); }
        }
    }}}
    macro_rules! uni { ($ty:ty, $zc:expr) => {{
        let ch = <$ty>::new("t");
        let (mut stream, _id) = ch.create_stream();
        if $zc {
            for c in 0..cycles {
                assert!(ch.send_with(move |slot| unsafe { std::ptr::write(slot, mk(100 + c)) }).is_ok(), "send rejected");
                let h = poll(&mut stream).expect("event not delivered"); let _ = h.id; drop(h);
            }
            match abandon {
                "reserve" => { let _ = ch.reserve_slot(); }
                "panic" => { let r = std::panic::catch_unwind(std::panic::AssertUnwindSafe(|| { let _ = ch.send_with(|_slot| panic!("setter gives up")); })); assert!(r.is_err()); }
                _ => {}
            }
        }
        for i in 0..sent { assert!(ch.send_with(move |slot| unsafe { std::ptr::write(slot, mk(i)) }).is_ok(), "send rejected"); }
        let mut held = vec![];
        for _ in 0..consumed { if let Some(h) = poll(&mut stream) { held.push(h) } }
        for h in &held { let _ = h.id; }
        if release_before_teardown || !$zc { held.clear(); }
        drop(stream);
        drop(ch);
        if !held.is_empty() { std::mem::forget(held); }
        for i in 0..sent {
            let d = DROPS[i as usize].load(SeqCst);
            if d > 1 { out.push(format!("VIOLATION destroyed_twice payload {i} destroyed {d} times")); }
            if i < consumed && (release_before_teardown || !$zc) && d == 0 { out.push(format!("VIOLATION never_destroyed payload {i} was delivered and released but never destroyed")); }
        }
        if $zc { for c in 0..cycles {
            let d = DROPS[100 + c as usize].load(SeqCst);
            if d != 1 { out.push(format!("VIOLATION {} payload #{} of the warm-up cycles (delivered and released long before the teardown) was destroyed {d} times", if d > 1 { "destroyed_twice" } else { "never_destroyed" }, 100 + c)); }
        } }
    }}}
    match kind {
        "multi_ogre_arc_atomic" => multi!(ChannelMultiOgreArcAtomic<Tracked, 4, 2>, true),
        "multi_ogre_arc_fullsync" => multi!(ChannelMultiOgreArcFullSync<Tracked, 4, 2>, true),
        "multi_arc_atomic" => multi!(ChannelMultiArcAtomic<Tracked, 4, 2>, true),
        "multi_arc_fullsync" => multi!(ChannelMultiArcFullSync<Tracked, 4, 2>, true),
        "multi_arc_crossbeam" => multi!(ChannelMultiArcCrossbeam<Tracked, 4, 2>, true),
        "uni_zc_atomic" => uni!(ChannelUniZeroCopyAtomic<Tracked, 4, 1>, true),
        "uni_zc_fullsync" => uni!(ChannelUniZeroCopyFullSync<Tracked, 4, 1>, true),
        "uni_mov_atomic" => uni!(ChannelUniMoveAtomic<Tracked, 4, 1>, false),
        "uni_mov_fullsync" => uni!(ChannelUniMoveFullSync<Tracked, 4, 1>, false),
        _ => uni!(ChannelUniMoveCrossbeam<Tracked, 4, 1>, false),
    }
    out.push("teardown completed".into());
    out
}

fn main() {
    let a = Args::parse();
    if let Some(k) = a.kv.get("case") {
        for l in child(k, a.num("seedx", 1)).into_iter().skip(1) { println!("{l}"); }
        return
    }
    let seed0 = a.num("seed", 1);
    let runs = a.num("runs", 40);
    let replay_dir = a.get("replay_dir", "");
    let pid = a.get("prop", "C");
    let exe = std::env::current_exe().unwrap();
    let mut rep = Report::new("teardown");
    for i in 0..runs {
        let seed = seed0.wrapping_mul(1_000_003).wrapping_add(i);
        let kind = KINDS[(i as usize) % KINDS.len()];
        let o = std::process::Command::new(&exe).arg(format!("case={kind}")).arg(format!("seedx={seed}")).output().expect("spawn child");
        let stdout = String::from_utf8_lossy(&o.stdout).to_string();
        let lines: Vec<String> = stdout.lines().map(|l| l.to_string()).collect();
        let mut viol: Vec<(String, String)> = vec![];
        use std::os::unix::process::ExitStatusExt;
        if let Some(sig) = o.status.signal() {
            viol.push(("teardown_crash".into(), format!("channel {kind}: the process was killed by signal {sig} while the channel was torn down ({})", lines.first().cloned().unwrap_or_default())));
        } else if !o.status.success() {
            let err = String::from_utf8_lossy(&o.stderr);
            viol.push(("teardown_panic".into(), format!("channel {kind}: child exited with {:?}: {}", o.status.code(), err.lines().last().unwrap_or(""))));
        }
        for l in &lines { if let Some(v) = l.strip_prefix("VIOLATION ") { let (k, d) = v.split_once(' ').unwrap(); viol.push((k.to_string(), format!("channel {kind}: {d} ({})", lines[0]))); } }
        let nontrivial = lines.first().map(|l| !l.contains("consumed=0 ") || l.contains("sent=")).unwrap_or(false);
        rep.add_run(&lines, nontrivial, kind, if o.status.success() { "Completed" } else { "Crashed" });
        for (k, d) in viol {
            let header = vec![format!("cmd teardown case={kind} seedx={seed}"), format!("violation {k}: {d}")];
            let path = write_replay(&replay_dir, &format!("{pid}-teardown-{kind}-seed{seed}-{k}"), &header, &lines);
            rep.violations.push(Violation { run: i, seed, kind: k, detail: d, replay: path });
        }
    }
    rep.print();
}
