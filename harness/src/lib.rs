//! Verification harness for reactive-mutiny: deterministic scheduler + scenario helpers.
pub mod sched;
pub mod util;
